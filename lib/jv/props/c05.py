"""C05 — rename rewrites exactly the references and preserves behaviour.

Engine E1 over PF programs (single- and multi-module); oracle = CPython (the original and the
renamed program are executed and must print the same), token-level diff of old vs new text,
and the partition law of get_references.
"""
import io
import keyword
import os
import re
import shutil
import tokenize

from .. import boot, canon, execute, pf, pool

ID = 'C05'
BUDGET = {'quick': 300, 'thorough': 2400}
FRESH = 'zq_fresh'


def _init():
    boot.boot()
    boot.environment()


def name_tokens(text):
    out = []
    for tok in tokenize.generate_tokens(io.StringIO(text).readline):
        if tok.type == tokenize.NAME and not keyword.iskeyword(tok.string):
            out.append((tok.start[0], tok.start[1], tok.string))
    return out


def all_tokens(text):
    return [(t.type, t.string, t.start) for t in tokenize.generate_tokens(io.StringIO(text).readline)
            if t.type not in (tokenize.NL, tokenize.NEWLINE, tokenize.INDENT, tokenize.DEDENT,
                              tokenize.ENDMARKER, tokenize.COMMENT)]


def bound_names(files):
    """Identifiers that the generated sources themselves bind (so renaming them is meaningful)."""
    import ast
    bound = set()
    mods = set()
    for rel, text in files.items():
        if not rel.endswith('.py'):
            continue
        parts = rel[:-3].split('/')
        if parts[-1] == '__init__':
            parts = parts[:-1]
        mods.update(parts)
        for node in ast.walk(ast.parse(text)):
            if isinstance(node, (ast.FunctionDef, ast.ClassDef, ast.AsyncFunctionDef)):
                bound.add(node.name)
            elif isinstance(node, ast.arg):
                bound.add(node.arg)
            elif isinstance(node, ast.Name) and isinstance(node.ctx, ast.Store):
                bound.add(node.id)
            elif isinstance(node, ast.Attribute) and isinstance(node.ctx, ast.Store):
                bound.add(node.attr)
            elif isinstance(node, ast.alias):
                if node.asname:
                    bound.add(node.asname)
    mods.discard('main')
    return bound, mods


def snapshot(root):
    out = {}
    for d, _, fs in os.walk(root):
        for f in fs:
            if f.endswith('.pyc'):
                continue
            p = os.path.join(d, f)
            with open(p, 'rb') as g:
                out[os.path.relpath(p, root)] = g.read()
    return out


def refs_of(script, line, col, root):
    names = script.get_references(line, col)
    out = set()
    outside = []
    for n in names:
        mp = str(n.module_path) if n.module_path else None
        if mp and mp.startswith(root + os.sep) and n.line is not None:
            out.add((os.path.relpath(mp, root), n.line, n.column, n.name, n.type))
        else:
            outside.append((mp, n.line, n.column, n.name))
    return out, outside


def check_program(src, chain, only_occ=None, layout=None):
    jedi = boot.boot()
    env = boot.environment()
    prog = pf.build(src, chain)
    pid = prog.pid()
    files = prog.render()
    if layout == 'uedge':
        # identifiers that start and end with a non-ASCII letter (byte-level \\b is ASCII only)
        pid += '/uedge'
        files = {k: pf.unicode_edge_names(v) for k, v in files.items()}
    base = os.path.join(boot.scratch_root(), 'c05', '%d_%s' % (os.getpid(), abs(hash(pid)) % 10 ** 8))
    shutil.rmtree(base, ignore_errors=True)
    src_dir = os.path.join(base, 'src')
    os.makedirs(src_dir)
    out = {'id': pid, 'fails': [], 'occ': 0, 'classes': 0, 'renames_run': 0, 'file_renames': 0,
           'evals': 0}

    def fail(site, inp, detail):
        detail['program'] = files
        out['fails'].append({'site': site, 'input': inp, 'detail': detail})

    try:
        execute.write_tree(src_dir, files)
        run0 = os.path.join(base, 'run0')
        shutil.copytree(src_dir, run0)
        stdout0, exc0 = execute.run_program(run0)
        if exc0 is not None:
            out['invalid'] = exc0
            return out
        bound, mods = bound_names(files)
        skip = prog.protocol()
        if layout == 'uedge':
            skip = {pf.unicode_edge_names(x) for x in skip}
        project = jedi.Project(src_dir)
        scripts = {}

        def script_for(rel):
            if rel not in scripts:
                scripts[rel] = jedi.Script(files[rel], path=os.path.join(src_dir, rel),
                                           environment=env, project=project)
            return scripts[rel]
        occs = []
        for rel, text in sorted(files.items()):
            if not rel.endswith('.py'):
                continue
            for (l, c, s) in name_tokens(text):
                if s in skip or (s.startswith('__') and s.endswith('__')):
                    continue
                if s not in bound and s not in mods:
                    continue
                occs.append((rel, l, c, s))
        out['occ'] = len(occs)
        R = {}
        for (rel, l, c, s) in occs:
            oid = '%s|%s@%d:%d:%s' % (pid, rel, l, c, s)
            if only_occ and oid != only_occ:
                continue
            out['evals'] += 1
            try:
                refs, outside = refs_of(script_for(rel), l, c, src_dir)
            except Exception as e:
                fail(canon.exc_site(e), oid, {'call': 'get_references', 'tb': canon.short_tb(e)})
                continue
            R[(rel, l, c, s)] = (frozenset((r[0], r[1], r[2], r[3]) for r in refs), refs, outside)
            if (rel, l, c, s) not in {(r[0], r[1], r[2], r[3]) for r in refs}:
                fail('refs-miss-self@get_references', oid,
                     {'occurrence': [rel, l, c, s], 'refs': sorted(refs)})
        # partition law
        occ_index = {k: k for k in R}
        for key, (rset, refs, outside) in sorted(R.items()):
            oid = '%s|%s@%d:%d:%s' % ((pid,) + key)
            for r in sorted(rset):
                other = occ_index.get(r)
                if other is not None and R[other][0] != rset:
                    fail('refs-not-partition@get_references', oid,
                         {'from': list(key), 'refs': sorted(rset), 'via': list(other),
                          'refs_via': sorted(R[other][0])})
                    break
        # one rename per distinct reference class
        done = set()
        for key, (rset, refs, outside) in sorted(R.items()):
            if rset in done:
                continue
            done.add(rset)
            out['classes'] += 1
            rel, l, c, s = key
            oid = '%s|%s@%d:%d:%s' % ((pid,) + key)
            out['evals'] += 1
            try:
                ref = script_for(rel).rename(l, c, new_name=FRESH)
                changed = {os.path.relpath(str(p), src_dir): cf.get_new_code()
                           for p, cf in ref.get_changed_files().items()}
                renames = [(os.path.relpath(str(a), src_dir), os.path.relpath(str(b), src_dir))
                           for a, b in ref.get_renames()]
            except Exception as e:
                fail(canon.exc_site(e), oid, {'call': 'rename', 'tb': canon.short_tb(e)})
                continue
            out['renames_run'] += 1
            out['file_renames'] += len(renames)
            # exactly the references, nothing else
            touched = set()
            bad_edit = None
            for crel, new in sorted(changed.items()):
                old_t, new_t = all_tokens(files[crel]), all_tokens(new)
                if len(old_t) != len(new_t):
                    bad_edit = (crel, 'token count %d -> %d' % (len(old_t), len(new_t)))
                    break
                for a, b in zip(old_t, new_t):
                    if a[1] != b[1]:
                        if a[1] == s and b[1] == FRESH and a[0] == tokenize.NAME:
                            touched.add((crel, a[2][0], a[2][1]))
                        else:
                            bad_edit = (crel, 'token %r -> %r at %s' % (a[1], b[1], a[2]))
            if bad_edit:
                fail('rename-edits-non-reference@rename', oid, {'occurrence': list(key),
                                                              'bad': bad_edit, 'new': changed})
                continue
            # module-name references reported at (1, 0)-style positions are file renames, not tokens
            tok_refs = {(r[0], r[1], r[2]) for r in refs if r[4] != 'module' or
                        any((t[0], t[1]) == (r[1], r[2]) for t in name_tokens(files.get(r[0], '')))}
            tok_refs = {r for r in tok_refs
                        if any((t[0], t[1], t[2]) == (r[1], r[2], s)
                               for t in name_tokens(files.get(r[0], '')))}
            if touched != tok_refs:
                fail('rename-differs-from-references@rename', oid,
                     {'occurrence': list(key), 'renamed_not_reference': sorted(touched - tok_refs),
                      'reference_not_renamed': sorted(tok_refs - touched)})
                continue
            # behaviour
            run1 = os.path.join(base, 'run_%d' % out['classes'])
            shutil.copytree(src_dir, run1)
            for crel, new in changed.items():
                with open(os.path.join(run1, crel), 'w', encoding='utf-8', newline='') as f:
                    f.write(new)
            try:
                for a, b in renames:
                    os.rename(os.path.join(run1, a), os.path.join(run1, b))
            except OSError as e:
                fail('announced-rename-not-applicable@rename', oid,
                     {'occurrence': list(key), 'renames': renames, 'error': repr(e)})
                continue
            after = snapshot(run1)
            stdout1, exc1 = execute.run_program(run1)
            if (stdout1, exc1) != (stdout0, exc0):
                fail('behaviour-changed@rename', oid,
                     {'occurrence': list(key), 'stdout_before': stdout0, 'stdout_after': stdout1,
                      'exception_after': exc1, 'changed': changed, 'renames': renames,
                      'references': sorted(rset)})
                continue
            # rename back restores byte for byte
            try:
                nrel = rel
                for a, b in renames:
                    if nrel == a or nrel.startswith(a + '/'):
                        nrel = b + nrel[len(a):]
                ntext = after[nrel].decode('utf-8')
                # same token index -> new position of the occurrence
                idx = [i for i, t in enumerate(all_tokens(files[rel])) if t[2] == (l, c)][0]
                nl, nc = all_tokens(ntext)[idx][2]
                proj2 = jedi.Project(run1)
                s2 = jedi.Script(ntext, path=os.path.join(run1, nrel), environment=env,
                                 project=proj2)
                out['evals'] += 1
                back = s2.rename(nl, nc, new_name=s)
                back.apply()
            except Exception as e:
                fail(canon.exc_site(e) + '/rename-back', oid,
                     {'occurrence': list(key), 'call': 'rename back', 'tb': canon.short_tb(e)})
                continue
            restored = snapshot(run1)
            orig = snapshot(src_dir)
            if restored != orig:
                diff = sorted(k for k in set(restored) | set(orig) if restored.get(k) != orig.get(k))
                fail('rename-back-not-identity@rename', oid,
                     {'occurrence': list(key), 'differing_files': diff,
                      'got': {k: restored.get(k, b'<missing>').decode('utf-8', 'replace')
                              for k in diff}})
                continue
            # third step of the history on the SAME paths (text read from disk): the files are
            # byte-identical to the start again, so the same request must give the same result
            try:
                s3 = jedi.Script(path=os.path.join(run1, rel), environment=env, project=proj2)
                out['evals'] += 1
                again = s3.rename(l, c, new_name=FRESH)
                changed3 = {os.path.relpath(str(p), run1): cf.get_new_code()
                            for p, cf in again.get_changed_files().items()}
                renames3 = sorted((os.path.relpath(str(a), run1), os.path.relpath(str(b), run1))
                                  for a, b in again.get_renames())
            except Exception as e:
                fail(canon.exc_site(e) + '/rename-again', oid,
                     {'occurrence': list(key), 'call': 'rename again', 'tb': canon.short_tb(e)})
                continue
            if changed3 != changed or renames3 != sorted(renames):
                fail('rename-again-differs@rename', oid,
                     {'occurrence': list(key), 'first': changed, 'again': changed3,
                      'renames_first': sorted(renames), 'renames_again': renames3})
        return out
    finally:
        shutil.rmtree(base, ignore_errors=True)


def _work(task):
    return check_program(task['src'], task['chain'], layout=task.get('layout'))


DEPTH1_ONLY = {'nonlocal_', 'import_as', 'from_import_as', 'kwarg_xmod', 'varargs_forward_kw'}


def _levels(tier):
    srcs = [s for s, _ in pf.SOURCES]
    # carriers with open known findings (reference sets that leak through aliases / miss nonlocal
    # rebinding) are explored at depth 1 only, so the findings stay explicit lists
    multi = [c for c in ['import_mod', 'from_import', 'from_import_as', 'import_as',
                         'pkg_relative', 'pkg_init_reexport', 'star_import', 'kwarg_xmod',
                         'method_xmod', 'inherit_xmod', 'pkg_prefix_sibling', 'pkg_self_import',
                         'conditional_reimport'] if c not in DEPTH1_ONLY]
    core = [c for c in pf.CARRIER_NAMES if c in pf.CORE and c not in DEPTH1_ONLY]
    lv = []
    if tier == 'quick':
        lv.append(('depth1: all carriers x {inst,cls,func}',
                   list(pf.enumerate_programs(1, ['inst', 'cls', 'func']))))
        lv.append(('depth2: core x multi-module x {inst}',
                   [('inst', [a, b]) for a in core for b in multi]))
    else:
        lv.append(('depth1: all carriers x all sources', list(pf.enumerate_programs(1))))
        lv.append(('depth2: all x multi-module x {inst,cls,func}',
                   [(s, [a, b]) for s in ['inst', 'cls', 'func'] for a in pf.CARRIER_NAMES
                    if a not in DEPTH1_ONLY for b in multi if pf.applicable(s, [a, b])]))
        lv.append(('depth2: core pairs x {inst}', list(pf.enumerate_programs(2, ['inst'], core))))
    out = [(n, [dict(src=s, chain=c) for s, c in ts]) for n, ts in lv]
    xm = [c for c in multi if c not in DEPTH1_ONLY] + ['global_', 'global_rebind_fn', 'init_attr',
                                                       'inherited_method']
    srcs = ['inst'] if tier == 'quick' else ['inst', 'cls', 'func']
    out.append(('unicode-edge identifiers (äname…ß): multi-module and global carriers',
                [dict(src=s, chain=[c], layout='uedge') for s in srcs for c in xm]))
    return out


def run(ctx):
    states = trans = classes = occ = renames = frenames = 0
    done = []
    samples = []
    exhaustive = True
    invalid = []
    for name, tasks in _levels(ctx.tier):
        if ctx.time_left() < 10:
            exhaustive = False
            ctx.note('level %s not started (time cap)' % name)
            continue
        pres = pool.run(tasks, 'jv.props.c05:_work', init='jv.props.c05:_init', seed=ctx.seed,
                        deadline=ctx.deadline, tag='c05')
        ctx.absorb(pres, name)
        for i, t in enumerate(tasks):
            if i in pres.crashed:
                ctx.violation('WorkerDied(exit=%s)' % pres.crashed[i],
                              pf.build(t['src'], t['chain']).pid(), {'task': t}, {'task': t})
                continue
            r = pres.results.get(i)
            if r is None:
                continue
            if 'invalid' in r:
                invalid.append(r['id'])
                continue
            states += 1
            trans += r['evals']
            occ += r['occ']
            classes += r['classes']
            renames += r['renames_run']
            frenames += r['file_renames']
            for f in r['fails']:
                ctx.violation(f['site'], f['input'], f['detail'], {'task': t, 'input': f['input']})
        if pres.skipped:
            exhaustive = False
            ctx.note('level %s: %d of %d programs not explored (time cap)'
                     % (name, len(pres.skipped), len(tasks)))
        else:
            done.append('%s: %d programs' % (name, len(tasks)))
        if tasks:
            t = tasks[len(tasks) // 3]
            samples.append({'level': name, 'id': pf.build(t['src'], t['chain']).pid(),
                            'files': pf.build(t['src'], t['chain']).render()})
    ctx.coverage.update({
        'states': states, 'transitions': trans, 'evaluations': trans,
        'identifier_occurrences': occ, 'distinct_nontrivial': classes,
        'renames_executed': renames, 'file_renames_announced': frenames,
        'rule': 'state = one generated program; transition = one get_references / rename / '
                'rename-back call; distinct_nontrivial = distinct (program, reference class) '
                'pairs, each renamed once, executed, and renamed back',
        'levels_completed': done, 'exhaustive': exhaustive, 'samples': samples[:3],
        'n_invalid_programs': len(invalid),
    })
    ctx.assumptions += [
        'configuration `stubs`',
        'only identifiers that the generated sources themselves bind (or project module names) '
        'are renamed; protocol names (dunders) and names reached only through strings are excluded '
        'as the property states',
    ]


def replay(case):
    _init()
    t = case['task']
    r = check_program(t['src'], t['chain'], layout=t.get('layout'))
    return [(f['site'], f['input'], {k: v for k, v in f['detail'].items() if k != 'program'})
            for f in r['fails'] if 'input' not in case or f['input'] == case['input']]
