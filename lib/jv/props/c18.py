"""C18 — get_context, parent() and full_name describe the lexical nesting.

Engine E1: all nesting shapes of depth <= 3 (quick) / <= 4 over {class, def, async def, decorated
def, lambda, comprehension}, PF programs and syntactically valid corpus files; every code token.
Oracle = the AST nesting (innermost def/class whose *body* contains the token; header tokens may
answer the definition itself or its enclosing scope), the AST ancestor chain for parent(), and
module dotted path + __qualname__ (computed from the nesting, = what CPython assigns) for
full_name of module- and class-level functions/classes.
"""
import ast
import io
import itertools
import os
import shutil
import tokenize

from .. import boot, canon, corpus, execute, pf, pool

ID = 'C18'
BUDGET = {'quick': 300, 'thorough': 2400}

KINDS = ['def', 'class', 'async', 'decorated', 'decorated_async', 'lambda', 'comp']


def _init():
    boot.boot()
    boot.environment()


def shapes(depth):
    """All kind sequences of length 1..depth; after lambda/comp only lambda/comp may nest."""
    for d in range(1, depth + 1):
        for seq in itertools.product(KINDS, repeat=d):
            ok = True
            for a, b in zip(seq, seq[1:]):
                if a in ('lambda', 'comp') and b not in ('lambda', 'comp'):
                    ok = False
            if ok:
                yield seq


def render_shape(seq):
    lines = ['def deco(func):', '    return func', '', 'top_before = 0']

    def expr(k, rest):
        """expression for lambda/comp chains"""
        if not rest:
            return 'leaf_%d' % k
        kind = rest[0]
        inner = expr(k + 1, rest[1:])
        if kind == 'lambda':
            return '(lambda par_%d: (par_%d, %s))' % (k, k, inner)
        return '[(it_%d, %s) for it_%d in (1, 2)]' % (k, inner, k)

    def block(k, rest, ind):
        pad = '    ' * ind
        if not rest:
            lines.append(pad + 'leaf_stmt_%d = top_before' % k)
            return
        kind = rest[0]
        if kind in ('lambda', 'comp'):
            lines.append(pad + 'leaf_%d = 1' % (k + len(rest)))
            lines.append(pad + 'val_%d = %s' % (k, expr(k, rest)))
            return
        if kind in ('decorated', 'decorated_async'):
            lines.append(pad + '@deco')
        head = {'def': 'def', 'decorated': 'def', 'async': 'async def', 'class': 'class',
                'decorated_async': 'async def'}[kind]
        if kind == 'class':
            lines.append(pad + 'class Cls_%d(object):' % k)
        else:
            lines.append(pad + '%s fun_%d(arg_%d, opt_%d=top_before):' % (head, k, k, k))
        lines.append(pad + '    first_%d = 1' % k)
        block(k + 1, rest[1:], ind + 1)
        lines.append(pad + '    last_%d = first_%d' % (k, k))
    block(1, list(seq), 0)
    lines.append('top_after = top_before')
    return '\n'.join(lines) + '\n'


def code_tokens(text):
    out = []
    for t in tokenize.generate_tokens(io.StringIO(text).readline):
        if t.type in (tokenize.NAME, tokenize.NUMBER, tokenize.STRING, tokenize.OP):
            out.append((t.start[0], t.start[1], t.string))
    return out


class Scope:
    def __init__(self, node, parent, lines):
        self.node = node
        self.parent = parent
        self.name = node.name if node is not None else None
        self.kind = 'module' if node is None else ('class' if isinstance(node, ast.ClassDef)
                                                   else 'function')
        if node is not None:
            decos = node.decorator_list
            first = min([d.lineno for d in decos] + [node.lineno])
            fcol = 0
            self.start = (first, execute.char_col(lines[first - 1],
                                                  (decos[0].col_offset - 1) if decos and
                                                  decos[0].lineno == first else node.col_offset))
            b = node.body[0]
            self.body_start = (b.lineno, execute.char_col(lines[b.lineno - 1], b.col_offset))
            if isinstance(b, (ast.FunctionDef, ast.AsyncFunctionDef, ast.ClassDef)) \
                    and b.decorator_list:
                d = b.decorator_list[0]
                self.body_start = (d.lineno, execute.char_col(lines[d.lineno - 1], d.col_offset) - 1)
            self.end = (node.end_lineno, execute.char_col(lines[node.end_lineno - 1],
                                                          node.end_col_offset))
            self.def_line = node.lineno

    def chain(self):
        s, out = self, []
        while s is not None:
            out.append(s)
            s = s.parent
        return out

    def qualname(self):
        parts = []
        s = self
        while s.node is not None:
            parts.append(s.name)
            if s.parent.node is not None and s.parent.kind == 'function':
                parts.append('<locals>')
            s = s.parent
        return '.'.join(reversed(parts))


def scopes_of(text):
    tree = ast.parse(text)
    lines = text.split('\n')
    mod = Scope(None, None, lines)
    out = []

    def walk(node, cur):
        for ch in ast.iter_child_nodes(node):
            if isinstance(ch, (ast.FunctionDef, ast.AsyncFunctionDef, ast.ClassDef)):
                s = Scope(ch, cur, lines)
                out.append(s)
                walk(ch, s)
            else:
                walk(ch, cur)
    walk(tree, mod)
    return mod, out


def expected_context(pos, mod, scs):
    """-> (set of acceptable scopes, region)"""
    inner = mod
    region = 'body'
    # innermost scope whose span contains pos
    best = None
    for s in scs:
        if s.start <= pos < s.end:
            if best is None or s.start >= best.start:
                best = s
    if best is None:
        return {mod}, 'body'
    if pos >= best.body_start:
        return {best}, 'body'
    # header (decorators, name, parameters, defaults, annotations, bases)
    return {best, best.parent}, 'header'


# editor histories: the same path analysed with an earlier text first (parso re-uses and
# re-parents the unchanged nodes of the earlier tree)
HISTORY_BASE = '''\
class Circle:
    radius = 1
class Square:
    side = 2
    def area(self):
        def helper(val):
            return val * val
        return 3 * helper(self.side)
    class Meta:
        frozen = True
def outer_fn():
    marker = 0
    def inner_fn():
        return marker
    return inner_fn
'''


# definitions spelled like the implementation modules that full_name maps to public ones
# (classes.py: `_mapping` applies to the FIRST component of the path, the module, only)
FIXED_TEXTS = {
    'alias-names': '''\
class posix:
    class _io:
        def genericpath(self):
            return 1
    def _collections(self):
        return 2
    _sqlite3 = 3
def _functools():
    def posixpath():
        return 4
    return posixpath
class ntpath:
    _socket = 5
''',
}


def history_pairs():
    """(id, earlier text, later text): every single-line deletion of HISTORY_BASE that still
    parses, in both directions (delete the line / type the line)."""
    lines = HISTORY_BASE.split('\n')[:-1]
    out = []
    for k in range(len(lines)):
        cut = '\n'.join(lines[:k] + lines[k + 1:]) + '\n'
        try:
            ast.parse(cut)
        except SyntaxError:
            continue
        out.append(('del%d' % (k + 1), HISTORY_BASE, cut))
        out.append(('ins%d' % (k + 1), cut, HISTORY_BASE))
    return out


def check_text(tid, text, others, modname='main', relpath='main.py', prior=()):
    jedi = boot.boot()
    env = boot.environment()
    base = os.path.join(boot.scratch_root(), 'c18', '%d_%s' % (os.getpid(), abs(hash(tid)) % 10 ** 8))
    shutil.rmtree(base, ignore_errors=True)
    os.makedirs(base)
    out = {'id': tid, 'fails': [], 'evals': 0, 'body_tokens': 0, 'header_tokens': 0,
           'defs_checked': 0, 'classes': []}
    seen = set()

    def fail(site, inp, detail):
        detail['text'] = text
        out['fails'].append({'site': site, 'input': '%s|%s' % (tid, inp), 'detail': detail})

    def ident(n):
        return (n.name, n.type, n.line)

    def sid(s):
        return (modname if s.node is None else s.name, s.kind, None if s.node is None else None)
    try:
        files = dict(others)
        files[relpath] = text
        execute.write_tree(base, files)
        project = jedi.Project(base)
        path = os.path.join(base, relpath)
        for earlier in prior:
            # the questions an outline view asks, on the earlier text at the same path
            es = jedi.Script(earlier, path=path, environment=env, project=project)
            for n in es.get_names(all_scopes=True, definitions=True, references=False):
                out['evals'] += 1
                p, guard = n.parent(), 0
                while p is not None and guard < 20:
                    p, guard = p.parent(), guard + 1
            for li in range(1, earlier.count('\n') + 1):
                es.get_context(li, len(earlier.split('\n')[li - 1]))
        script = jedi.Script(text, path=path, environment=env, project=project)
        mod, scs = scopes_of(text)
        for (l, c, s) in code_tokens(text):
            exp, region = expected_context((l, c), mod, scs)
            out['evals'] += 1
            out['body_tokens' if region == 'body' else 'header_tokens'] += 1
            inp = 'get_context@%d:%d' % (l, c)
            try:
                ctx = script.get_context(l, c)
                got = (ctx.name, ctx.type)
                ok = False
                for e in exp:
                    if e.node is None:
                        if ctx.type == 'module':
                            ok = True
                    elif (ctx.name, ctx.type, ctx.line) == (e.name, e.kind, e.def_line):
                        ok = True
                seen.add((region, ctx.type, len(next(iter(exp)).chain())))
                if not ok:
                    fail('wrong-context@%s' % region, inp,
                         {'token': s, 'pos': [l, c], 'got': [ctx.name, ctx.type, ctx.line],
                          'expected_one_of': [[e.name, e.kind, getattr(e, 'def_line', None)]
                                              for e in exp]})
            except Exception as e:
                fail(canon.exc_site(e), inp, {'tb': canon.short_tb(e)})
        # parent() chains and full_name
        out['evals'] += 1
        try:
            names = script.get_names(all_scopes=True, definitions=True, references=False)
        except Exception as e:
            fail(canon.exc_site(e), 'get_names', {'tb': canon.short_tb(e)})
            names = []
        by_line = {}
        for s in scs:
            by_line[(s.name, s.def_line)] = s
        for n in names:
            inp = 'parent@%d:%d:%s' % (n.line, n.column, n.name)
            try:
                # the scope that lexically contains this definition
                if n.type in ('function', 'class') and (n.name, n.line) in by_line:
                    sc = by_line[(n.name, n.line)]
                    enclosing = sc.parent
                    # full_name for module- and class-level definitions
                    want = modname + '.' + sc.qualname()
                    if all(x.kind == 'class' for x in enclosing.chain()[:-1]):
                        if n.full_name != want:
                            fail('full_name-differs@%s' % n.type, 'full_name@%d:%s' % (n.line, n.name),
                                 {'got': n.full_name, 'expected': want})
                    elif enclosing.kind == 'class' and n.full_name not in (None, want):
                        # class-level member of a class that lives inside a function: jedi answers
                        # None today; a dotted name is only acceptable if it is the real one
                        fail('full_name-differs@local-class-member', 'full_name@%d:%s' % (n.line, n.name),
                             {'got': n.full_name, 'expected_None_or': want})
                else:
                    e, _ = expected_context((n.line, n.column), mod, scs)
                    if len(e) != 1:
                        # a parameter/default in a header: parent is the definition itself
                        cands = sorted(e, key=lambda s: -len(s.chain()))
                        enclosing = cands[0]
                        if n.type != 'param':
                            continue
                    else:
                        enclosing = next(iter(e))
                out['defs_checked'] += 1
                chain = []
                p = n.parent()
                guard = 0
                while p is not None and guard < 20:
                    if p.name != '<lambda>':      # a lambda is a function; the AST chain below
                        chain.append((p.name, p.type))   # lists named scopes only
                    p = p.parent()
                    guard += 1
                want = [(modname.split('.')[-1] if s.node is None else s.name, s.kind)
                        for s in enclosing.chain()]
                if chain != want:
                    fail('parent-chain-differs@%s' % n.type, inp,
                         {'name': n.name, 'got': chain, 'expected': want})
            except Exception as e:
                fail(canon.exc_site(e), inp, {'tb': canon.short_tb(e)})
        out['classes'] = sorted(map(list, seen))
        return out
    finally:
        shutil.rmtree(base, ignore_errors=True)


# where the analysed file lives below the project root -> the dotted path Python would import it
# by (the root is on sys.path; folders without __init__.py are namespace packages)
LOCATIONS = [
    ('main.py', 'main', {}),
    ('tools/gen/emit.py', 'tools.gen.emit', {}),
    ('pkg/mod.py', 'pkg.mod', {'pkg/__init__.py': ''}),
    ('pkg/sub/leaf.py', 'pkg.sub.leaf', {'pkg/__init__.py': '', 'pkg/sub/__init__.py': ''}),
    ('pkg/__init__.py', 'pkg', {}),
    ('ns/pkg2/mod.py', 'ns.pkg2.mod', {'ns/pkg2/__init__.py': ''}),
]


def _work(task):
    if task['kind'] == 'located':
        rel, modname, others = LOCATIONS[task['loc']]
        return check_text('loc:%s:%s' % (rel, '>'.join(task['seq'])), render_shape(task['seq']),
                          others, modname=modname, relpath=rel)
    if task['kind'] == 'fixed':
        return check_text('fixed:' + task['name'], FIXED_TEXTS[task['name']], {})
    if task['kind'] == 'history':
        hid, earlier, later = [h for h in history_pairs() if h[0] == task['hid']][0]
        return check_text('history:' + hid, later, {}, prior=[earlier])
    if task['kind'] == 'shape':
        return check_text('shape:' + '>'.join(task['seq']), render_shape(task['seq']), {})
    if task['kind'] == 'pf':
        prog = pf.build(task['src'], task['chain'])
        files = prog.render()
        text = files.pop('main.py')
        return check_text(prog.pid(), text, files)
    text = dict(corpus.all_files())[task['name']]
    try:
        ast.parse(text)
    except SyntaxError:
        return {'id': task['name'], 'fails': [], 'evals': 0, 'body_tokens': 0, 'header_tokens': 0,
                'defs_checked': 0, 'classes': [], 'skipped': 'syntax'}
    return check_text('file:' + task['name'], text, {})


def _levels(tier):
    d = 3 if tier == 'quick' else 4
    lv = [('nesting shapes depth<=%d' % d, [dict(kind='shape', seq=list(s)) for s in shapes(d)])]
    lv.append(('file locations below the project root x shapes depth<=%d' % (1 if tier == 'quick' else 2),
               [dict(kind='located', loc=k, seq=list(s)) for k in range(len(LOCATIONS))
                for s in shapes(1 if tier == 'quick' else 2)]))
    lv.append(('two-step histories on one path: every single-line deletion/insertion that parses',
               [dict(kind='history', hid=h[0]) for h in history_pairs()]
               + [dict(kind='fixed', name=k) for k in sorted(FIXED_TEXTS)]))
    if tier == 'quick':
        lv.append(('PF depth1 x {inst}', [dict(kind='pf', src='inst', chain=[c])
                                          for c in pf.CARRIER_NAMES]))
        lv.append(('corpus files <= 60 lines', [dict(kind='file', name=n)
                                                for n, t in corpus.quick_files()]))
    else:
        lv.append(('PF depth1 x all sources', [dict(kind='pf', src=s, chain=c)
                                               for s, c in pf.enumerate_programs(1)]))
        lv.append(('corpus files', [dict(kind='file', name=n) for n, t in corpus.all_files()
                                    if t.strip() and len(t) < 20000]))
    return lv


def run(ctx):
    states = trans = body = header = defs = 0
    classes = set()
    done = []
    samples = []
    exhaustive = True
    for name, tasks in _levels(ctx.tier):
        if ctx.time_left() < 10:
            exhaustive = False
            ctx.note('level %s not started (time cap)' % name)
            continue
        pres = pool.run(tasks, 'jv.props.c18:_work', init='jv.props.c18:_init', seed=ctx.seed,
                        deadline=ctx.deadline, tag='c18')
        ctx.absorb(pres, name)
        for i, t in enumerate(tasks):
            if i in pres.crashed:
                ctx.violation('WorkerDied(exit=%s)' % pres.crashed[i], str(t), {'task': t},
                              {'task': t})
                continue
            r = pres.results.get(i)
            if r is None or r.get('skipped'):
                continue
            states += 1
            trans += r['evals']
            body += r['body_tokens']
            header += r['header_tokens']
            defs += r['defs_checked']
            classes.update(map(tuple, r['classes']))
            for f in r['fails']:
                ctx.violation(f['site'], f['input'], f['detail'], {'task': t, 'input': f['input']})
        if pres.skipped:
            exhaustive = False
            ctx.note('level %s: %d of %d texts not explored (time cap)'
                     % (name, len(pres.skipped), len(tasks)))
        else:
            done.append('%s: %d texts' % (name, len(tasks)))
        samples.append({'level': name, 'task': tasks[len(tasks) // 2]})
    samples.append({'rendered_shape': render_shape(['class', 'async', 'lambda'])})
    ctx.coverage.update({
        'states': states, 'transitions': trans, 'evaluations': trans, 'body_tokens_strict': body,
        'header_tokens_accept_two': header, 'definitions_parent_chain_checked': defs,
        'distinct_nontrivial': len(classes),
        'rule': 'state = one text; transition = get_context at one code token / one parent() chain; '
                'distinct_nontrivial = distinct (region, context type, nesting depth) classes',
        'levels_completed': done, 'exhaustive': exhaustive, 'samples': samples,
    })
    ctx.assumptions += [
        'configuration `stubs`',
        'for tokens in a definition header (decorators, name, parameters, defaults, bases) the '
        'property does not say which scope is meant; the definition itself or its enclosing scope '
        'are both accepted (upstream\'s own test table expects the definition from column 1 on)',
        '__qualname__ is computed from the AST nesting, which is what CPython assigns',
    ]


def replay(case):
    _init()
    r = _work(case['task'])
    return [(f['site'], f['input'], {k: v for k, v in f['detail'].items() if k != 'text'})
            for f in r['fails'] if 'input' not in case or f['input'] == case['input']]
