"""C02 — inferred types agree with what the program does when executed.

Engine E1 over the program family PF (jv.pf); oracle = CPython executing the very program under
AST instrumentation (jv.execute).  For every expression occurrence the run evaluates, the class
of every observed value must be among what `infer` reports there, pointing at the class/def
statement that really created it; where only one value can reach the expression (straight-line
chain, one observed value) the report must be exactly that.
"""
import os
import re
import shutil

from .. import boot, canon, execute, pf, pool

ID = 'C02'
BUDGET = {'quick': 300, 'thorough': 2400}

TRACKED_BUILTINS = {'int', 'str', 'float', 'list', 'dict', 'tuple', 'set', 'bool', 'NoneType',
                    'bytes', 'frozenset', 'complex'}


def _init():
    boot.boot()
    boot.environment()


def expected_of(desc, defs, files, run_dir=None, src='inst', probe_kind='name'):
    """Translate a run-time description into what infer must report, or None (untracked)."""
    kind, name, module, qual = desc[:4]
    if name == 'NoneType' and probe_kind == 'call' and src != 'none':
        # implicit `return None` of a procedure: jedi does not model it (not a documented feature)
        return None
    if kind == 'module':
        return {'name': name, 'type': 'module'}
    if module == 'builtins':
        if kind == 'instance' and name not in TRACKED_BUILTINS:
            return None
        if kind == 'function':
            return None
        return {'name': name, 'type': kind, 'builtin': True}
    rel = None
    if module.startswith('@file:'):
        fn = module[6:]
        if run_dir and fn.startswith(run_dir + os.sep):
            rel = os.path.relpath(fn, run_dir)
        else:
            return None
    elif module == '__main__':
        rel = 'main.py'
    else:
        for cand in (module.replace('.', '/') + '.py', module.replace('.', '/') + '/__init__.py'):
            if cand in files:
                rel = cand
    if rel is None:
        return None
    if '<lambda>' in qual:
        return {'name': '<lambda>', 'type': 'function', 'file': rel} if kind == 'function' else None
    loc = defs.get((rel, qual))
    if loc is None:
        return None
    return {'name': name, 'type': kind, 'file': rel, 'line': loc[0]}


def matches(exp, d):
    if d['name'] != exp['name']:
        return False
    if d['type'] != exp['type'] and not (exp['type'] == 'module' and d['type'] == 'namespace'):
        # (a directory without __init__.py is a module object at run time and a `namespace`
        # in jedi's documented Name.type vocabulary)
        return False
    if exp.get('builtin'):
        # (the generic `tuple[...]` of a stub's return annotation is reported as the class
        # `tuple` located in typeshed's typing.pyi: same class, jedi's representation)
        return d['builtin'] or str(d.get('file') or '').endswith(os.sep + 'stdlib' + os.sep + 'typing.pyi')
    if 'file' in exp and d['file'] != exp['file']:
        return False
    if 'line' in exp and d['line'] != exp['line']:
        return False
    return True


def check_program(src, chain, keep=False):
    """-> dict(fails=[...], probes=int, judged=int, exact=int, reached=bool)."""
    jedi = boot.boot()
    env = boot.environment()
    prog = pf.build(src, chain)
    pid = prog.pid()
    files = prog.render()
    base = os.path.join(boot.scratch_root(), 'c02', '%d_%s' % (os.getpid(), abs(hash(pid)) % 10 ** 8))
    shutil.rmtree(base, ignore_errors=True)
    src_dir = os.path.join(base, 'src')
    run_dir = os.path.join(base, 'run')
    os.makedirs(src_dir)
    os.makedirs(run_dir)
    out = {'id': pid, 'fails': [], 'probes': 0, 'judged': 0, 'exact': 0, 'classes': []}
    try:
        execute.write_tree(src_dir, files)
        rr = execute.run_instrumented(files, run_dir)
        if rr.exc is not None:
            # not a valid member of the family (e.g. a function stored as a class attribute
            # and called through an instance): counted, not judged
            out['invalid'] = rr.exc
            return out
        defs = execute.collect_defs(files)
        owners = prog.owners()
        project = jedi.Project(src_dir)
        scripts = {}
        seen_classes = set()
        for k, obs in sorted(rr.observed.items()):
            pr = rr.table[k]
            out['probes'] += 1
            exps = []
            untracked = False
            for desc in sorted(obs):
                e = expected_of(desc, defs, files, run_dir, src, pr['kind'])
                if e is None:
                    untracked = True
                else:
                    alts = [e]
                    if len(desc) > 4 and tuple(desc[4]) != tuple(desc[:4]):
                        # a functools.wraps wrapper: jedi documents that it reports the wrapped
                        # callable; both identities are accepted
                        a = expected_of(desc[4], defs, files, run_dir, src, pr['kind'])
                        if a is not None:
                            alts.append(a)
                    exps.append(alts)
            if not exps:
                continue
            rel = pr['file']
            if rel not in scripts:
                scripts[rel] = jedi.Script(files[rel], path=os.path.join(src_dir, rel),
                                           environment=env, project=project)
            line, col = pr['end']
            owner = owners[rel][line - 1] if line - 1 < len(owners[rel]) else '?'
            norm = re.sub(r'\d+', '#', pr['text'] or '')
            # call-site identity of a probe: owning carrier + normalised expression text; for the
            # RESULT line (where whole-chain flow arrives) the full program id
            probe_id = ('%s|%s|%s' % (pid, norm, pr['kind']) if owner in ('RESULT', '?') else
                        'carrier:%s|src:%s|%s|%s' % (owner, src, norm, pr['kind']))
            detail = {'program': files, 'file': rel, 'expr': pr['text'], 'pos': [line, col],
                      'observed': sorted(map(list, obs))}
            try:
                res = scripts[rel].infer(line, col)
                ds = [{'name': d.name, 'type': d.type,
                       'file': (os.path.relpath(str(d.module_path), src_dir)
                                if d.module_path and str(d.module_path).startswith(src_dir)
                                else str(d.module_path)),
                       'line': d.line, 'builtin': d.in_builtin_module()} for d in res]
            except Exception as e:
                detail['traceback'] = canon.short_tb(e)
                out['fails'].append({'site': canon.exc_site(e), 'input': probe_id,
                                     'detail': detail})
                continue
            out['judged'] += 1
            detail['reported'] = ds
            missing = [alts[0] for alts in exps
                       if not any(matches(e, d) for e in alts for d in ds)]
            if missing:
                detail['missing'] = missing
                site = 'missing-class@%s' % pr['kind'] if ds else 'nothing-inferred@%s' % pr['kind']
                out['fails'].append({'site': site, 'input': probe_id, 'detail': detail})
                continue
            for alts in exps:
                seen_classes.add((alts[0]['name'], alts[0]['type'], pr['kind']))
            if len(obs) == 1 and not untracked and not prog.branching:
                out['exact'] += 1
                extra = [d for d in ds if not any(matches(e, d) for e in exps[0])]
                if extra:
                    detail['extra'] = extra
                    out['fails'].append({'site': 'extra-class@%s' % pr['kind'], 'input': probe_id,
                                         'detail': detail})
        out['classes'] = sorted(map(list, seen_classes))
        return out
    finally:
        if not keep:
            shutil.rmtree(base, ignore_errors=True)


def _work(task):
    return check_program(task['src'], task['chain'])


# `nonlocal` rebinding is not in the property's feature list (jedi does not model it)
NOT_IN_FEATURE_SET = {'nonlocal_'}
# carriers through which no value flows today (open known findings): explored at depth 1 only, so
# that the finding stays one explicit list and everything composed from working carriers is judged
DEPTH1_ONLY = {'star_rest'}


def _levels(tier):
    allc = [c for c in pf.CARRIER_NAMES if c not in NOT_IN_FEATURE_SET]
    deep = [c for c in allc if c not in DEPTH1_ONLY]
    core = [c for c in deep if c in pf.CORE]
    srcs = [s for s, _ in pf.SOURCES]
    lv = []
    lv.append(('depth0 x all sources', [(s, []) for s in srcs]))
    lv.append(('depth1: all carriers x all sources', list(pf.enumerate_programs(1, None, allc))))
    if tier == 'quick':
        corecs = set(core)
        lv.append(('depth2: ordered pairs with a core carrier on either side x {inst}',
                   [(s_, c) for s_, c in pf.enumerate_programs(2, ['inst'], deep)
                    if c[0] in corecs or c[1] in corecs]))
        lv.append(('depth2: core pairs x {cls,func,int,list}',
                   list(pf.enumerate_programs(2, ['cls', 'func', 'int', 'list'], core))))
    else:
        lv.append(('depth2: all ordered pairs x all sources', list(pf.enumerate_programs(2, None, deep))))
        lv.append(('depth3: core triples x {inst,cls,func}',
                   list(pf.enumerate_programs(3, ['inst', 'cls', 'func'], core))))
    return [(n, [dict(src=s, chain=c) for s, c in ts]) for n, ts in lv]


def run(ctx):
    states = trans = judged = exact = 0
    classes = set()
    done = []
    samples = []
    exhaustive = True
    carrier_hits = {}
    invalid = []
    tainted = set()        # (source, chain) whose final value is already reported wrongly
    not_expanded = 0
    for name, tasks in _levels(ctx.tier):
        if ctx.time_left() < 10:
            exhaustive = False
            ctx.note('level %s not started (time cap)' % name)
            continue
        # a violating state is reported, not expanded: a program that extends one whose RESULT
        # is already wrong would only repeat that finding under a longer name
        keep = [t for t in tasks
                if not any((t['src'], tuple(t['chain'][:k])) in tainted
                           for k in range(1, len(t['chain'])))]
        not_expanded += len(tasks) - len(keep)
        tasks = keep
        pres = pool.run(tasks, 'jv.props.c02:_work', init='jv.props.c02:_init', seed=ctx.seed,
                        deadline=ctx.deadline, tag='c02')
        ctx.absorb(pres, name)
        for i, t in enumerate(tasks):
            if i in pres.crashed:
                ctx.violation('WorkerDied(exit=%s)' % pres.crashed[i],
                              pf.build(t['src'], t['chain']).pid(), {'task': t}, {'task': t})
                continue
            r = pres.results.get(i)
            if r is None:
                continue
            if 'invalid' in r:
                invalid.append(r['id'])
                continue
            states += 1
            trans += r['probes']
            judged += r['judged']
            exact += r['exact']
            classes.update(map(tuple, r['classes']))
            for c in t['chain']:
                carrier_hits[c] = carrier_hits.get(c, 0) + 1
            for f in r['fails']:
                ctx.violation(f['site'], f['input'], f['detail'],
                              {'task': t, 'input': f['input']})
                if '|RESULT|' in f['input'] or '|RESULT()|' in f['input']:
                    tainted.add((t['src'], tuple(t['chain'])))
        if pres.skipped:
            exhaustive = False
            ctx.note('level %s: %d of %d programs not explored (time cap)'
                     % (name, len(pres.skipped), len(tasks)))
        else:
            done.append('%s: %d programs' % (name, len(tasks)))
        if tasks:
            t = tasks[len(tasks) // 2]
            samples.append({'level': name, 'id': pf.build(t['src'], t['chain']).pid(),
                            'main.py': pf.build(t['src'], t['chain']).render()['main.py']})
    ctx.coverage.update({
        'states': states, 'transitions': trans, 'evaluations': trans,
        'probes_judged': judged, 'probes_with_exactness_clause': exact,
        'distinct_nontrivial': len(classes),
        'rule': 'state = one generated program (source x carrier chain); transition = one executed '
                'expression occurrence probed with infer; distinct_nontrivial = distinct '
                '(class name, kind, expression kind) triples that were observed at run time AND '
                'confirmed in the infer result',
        'levels_completed': done, 'exhaustive': exhaustive, 'samples': samples[:4],
        'carrier_hits': carrier_hits, 'invalid_programs_not_judged': invalid[:50],
        'n_invalid_programs': len(invalid), 'carriers': pf.CARRIER_NAMES,
        'programs_not_expanded_because_a_prefix_already_violates': not_expanded,
        'violating_prefixes': sorted('%s∘%s' % (a, '∘'.join(b)) for a, b in tainted)[:60],
        'sources': [s for s, _ in pf.SOURCES],
    })
    ctx.assumptions += [
        'configuration `stubs` (vendored typeshed)',
        'run-time values outside the tracked universe (generators, iterators, builtin function '
        'objects, classes not defined in the generated sources or builtins) are not judged',
        'the exactness clause is applied only to programs whose carriers do not merge values '
        '(no if/try/conditional expression/nonlocal rebinding) and to probes with one observed value',
    ]


def replay(case):
    _init()
    t = case['task']
    r = check_program(t['src'], t['chain'])
    return [(f['site'], f['input'], f['detail'].get('reported')) for f in r['fails']
            if 'input' not in case or f['input'] == case['input']]
