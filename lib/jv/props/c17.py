"""C17 — every reported source position is faithful to the text.

Engine E1: corpus files and PF programs in the layouts of jv.layouts x every identifier position x
the query methods; oracle = the text itself (the characters at the reported line/column spell
the name; the definition range encloses it; get_line_code() is that line), an independent
tokenisation (tokenize) for get_names, and ast binding contexts for is_definition().
"""
import ast
import io
import keyword
import os
import shutil
import tokenize

from .. import boot, canon, corpus, execute, layouts, pf, pool

ID = 'C17'
BUDGET = {'quick': 300, 'thorough': 2400}


def _init():
    boot.boot()
    boot.environment()


def ident_tokens(lf_text):
    out = []
    for tok in tokenize.generate_tokens(io.StringIO(lf_text).readline):
        if tok.type == tokenize.NAME and not keyword.iskeyword(tok.string):
            out.append((tok.start[0], tok.start[1], tok.string))
    return out


def binding_sets(lf_text):
    """-> (binds, refs, skip): sets of (line, col) of identifier tokens by ast role."""
    tree = ast.parse(lf_text)
    lines = lf_text.split('\n')
    binds, refs, skip = set(), set(), set()

    def pos(node):
        return node.lineno, execute.char_col(lines[node.lineno - 1], node.col_offset)

    def find_after(line, col, name):
        """position of identifier `name` at/after (line, col) on the same logical header"""
        for l in range(line, min(line + 4, len(lines) + 1)):
            s = lines[l - 1]
            start = col if l == line else 0
            import re
            m = re.compile(r'(?<![\w.])%s\b' % re.escape(name)).search(s, start)
            if m:
                return l, m.start()
        return None
    for n in ast.walk(tree):
        if isinstance(n, ast.Name):
            if isinstance(n.ctx, ast.Store):
                binds.add(pos(n))
            elif isinstance(n.ctx, ast.Load):
                refs.add(pos(n))
            else:
                skip.add(pos(n))
        elif isinstance(n, ast.Attribute):
            l, c = n.end_lineno, execute.char_col(lines[n.end_lineno - 1], n.end_col_offset) - len(n.attr)
            if isinstance(n.ctx, ast.Store):
                binds.add((l, c))
            elif isinstance(n.ctx, ast.Load):
                refs.add((l, c))
            else:
                skip.add((l, c))
        elif isinstance(n, (ast.FunctionDef, ast.AsyncFunctionDef, ast.ClassDef)):
            p = find_after(n.lineno, execute.char_col(lines[n.lineno - 1], n.col_offset), n.name)
            if p:
                binds.add(p)
        elif isinstance(n, ast.arg):
            binds.add(pos(n))
        elif isinstance(n, (ast.Global, ast.Nonlocal)):
            for nm in n.names:
                import re
                for m in re.finditer(r'\b%s\b' % re.escape(nm), lines[n.lineno - 1]):
                    skip.add((n.lineno, m.start()))
        elif isinstance(n, ast.ExceptHandler) and n.name:
            p = find_after(n.lineno, 0, n.name)
            # `except E as name` - the last occurrence on the line after ' as '
            s = lines[n.lineno - 1]
            k = s.rfind(' as ' + n.name)
            if k >= 0:
                binds.add((n.lineno, k + 4))
        elif isinstance(n, ast.keyword) and n.arg:
            # keyword argument name in a call: a reference to the parameter
            refs.add((n.lineno, execute.char_col(lines[n.lineno - 1], n.col_offset)))
        elif isinstance(n, (ast.Import, ast.ImportFrom)):
            # import names: judged only through `as` targets and plain single names
            for a in n.names:
                if a.name == '*':
                    continue
                l, c = a.lineno, execute.char_col(lines[a.lineno - 1], a.col_offset)
                if a.asname:
                    s = lines[l - 1]
                    k = s.find(' as ' + a.asname, c)
                    if k >= 0:
                        binds.add((l, k + 4))
                    # the dotted/original name before `as` is a reference to something elsewhere
                    for part_pos in _dotted(l, c, a.name):
                        skip.add(part_pos)
                else:
                    parts = list(_dotted(l, c, a.name))
                    if isinstance(n, ast.Import):
                        # `import a.b` binds `a`; jedi reports every part as definition
                        for p in parts:
                            skip.add(p)
                        binds.add(parts[0])
                        skip.discard(parts[0])
                    else:
                        binds.add(parts[0])
            if isinstance(n, ast.ImportFrom):
                pass
    return binds, refs, skip


def _dotted(line, col, dotted):
    c = col
    for part in dotted.split('.'):
        yield (line, c)
        c += len(part) + 1


def text_at(lines, line, col, n):
    if line is None or col is None or not (1 <= line <= len(lines)):
        return None
    return lines[line - 1][col:col + n]


def check_text(tid, lf_text, text, others, tier):
    """All C17 clauses on one buffer.  `others` = other project files {rel: text}."""
    import parso
    jedi = boot.boot()
    env = boot.environment()
    base = os.path.join(boot.scratch_root(), 'c17', '%d_%s' % (os.getpid(), abs(hash(tid)) % 10 ** 8))
    shutil.rmtree(base, ignore_errors=True)
    os.makedirs(base)
    out = {'id': tid, 'fails': [], 'evals': 0, 'names_checked': 0, 'kinds': []}
    kinds = set()

    def fail(site, inp, detail):
        detail['text'] = text
        out['fails'].append({'site': site, 'input': '%s|%s' % (tid, inp), 'detail': detail})
    try:
        files = dict(others)
        files['main.py'] = text
        execute.write_tree(base, files)
        project = jedi.Project(base)
        path = os.path.join(base, 'main.py')
        script = jedi.Script(text, path=path, environment=env, project=project)
        file_lines = {}

        def lines_of(mp):
            mp = str(mp)
            if mp not in file_lines:
                if mp == path:
                    src = text
                else:
                    with open(mp, encoding='utf-8', newline='') as f:
                        src = f.read()
                file_lines[mp] = parso.split_lines(src, keepends=True)
            return file_lines[mp]

        def check_name(n, how, inp):
            mp = n.module_path
            if mp is None or not str(mp).startswith(base + os.sep):
                return
            if n.type in ('module', 'namespace') or n.line is None:
                return
            if not n.name.rstrip('=').isidentifier():
                return          # '<lambda>' and friends are not identifier tokens
            out['names_checked'] += 1
            kinds.add((type(n).__name__, n.type, how))
            ls = lines_of(mp)
            nm = n.name
            if how == 'complete' and nm.endswith('='):
                nm = nm[:-1]      # keyword-argument completions are named `param=` by design
            got = text_at(ls, n.line, n.column, len(nm))
            if got != nm:
                fail('text-at-position-differs@%s' % how, inp,
                     {'name': n.name, 'pos': [n.line, n.column], 'found': got,
                      'file': os.path.relpath(str(mp), base)})
                return
            s, e = n.get_definition_start_position(), n.get_definition_end_position()
            if s is not None and e is not None and not (s <= (n.line, n.column) < e):
                fail('definition-range-does-not-enclose@%s' % how, inp,
                     {'name': n.name, 'pos': [n.line, n.column], 'range': [s, e]})
            lc = n.get_line_code()
            if lc != ls[n.line - 1]:
                fail('line-code-differs@%s' % how, inp,
                     {'name': n.name, 'pos': [n.line, n.column], 'line_code': lc,
                      'line': ls[n.line - 1]})
        toks = ident_tokens(lf_text)
        # clause: get_names == identifier tokens, one to one
        out['evals'] += 1
        try:
            names = script.get_names(all_scopes=True, definitions=True, references=True)
            got = sorted((n.line, n.column, n.name) for n in names)
            if got != sorted(toks):
                gs, ts = set(got), set(toks)
                dup = sorted(x for x in gs if got.count(x) > 1)
                fail('get_names-differs-from-tokens@get_names', 'get_names',
                     {'missing': sorted(ts - gs)[:10], 'extra': sorted(gs - ts)[:10],
                      'duplicates': dup[:10]})
            for n in names:
                check_name(n, 'get_names', 'get_names')
            # clause: is_definition
            try:
                binds, refs, skip = binding_sets(lf_text)
            except SyntaxError:
                binds = refs = skip = set()
            for n in names:
                p = (n.line, n.column)
                if p in skip:
                    continue
                d = n.is_definition()
                if p in binds and not d:
                    fail('binding-token-not-definition@is_definition',
                         'is_definition@%d:%d' % p, {'name': n.name, 'pos': p})
                elif p in refs and p not in binds and d:
                    fail('reference-token-is-definition@is_definition',
                         'is_definition@%d:%d' % p, {'name': n.name, 'pos': p})
        except Exception as e:
            fail(canon.exc_site(e), 'get_names', {'tb': canon.short_tb(e)})
        # clause: every result of every query at every identifier
        methods = [('infer', {}), ('goto', {}), ('goto', {'follow_imports': True}),
                   ('get_references', {}), ('help', {}), ('get_signatures', {}), ('complete', {})]
        for (l, c, s) in toks:
            for m, kw in methods:
                col = c + len(s) if m in ('complete',) else c + (1 if len(s) > 1 else 0)
                if m == 'get_signatures':
                    continue
                out['evals'] += 1
                inp = '%s@%d:%d' % (m, l, col)
                try:
                    res = getattr(script, m)(l, col, **kw)
                    for n in (canon.cap(res, 8, 2) if m == 'complete' else res):
                        check_name(n, m, inp)
                        if m in ('infer', 'goto') and hasattr(n, 'parent'):
                            p = n.parent()
                            if p is not None:
                                check_name(p, m + '.parent', inp)
                except Exception as e:
                    fail(canon.exc_site(e), inp, {'tb': canon.short_tb(e)})
        # signatures: inside every call parenthesis
        for li, ln in enumerate(lf_text.split('\n'), 1):
            for ci, ch in enumerate(ln):
                if ch == '(':
                    out['evals'] += 1
                    inp = 'get_signatures@%d:%d' % (li, ci + 1)
                    try:
                        for sg in script.get_signatures(li, ci + 1):
                            check_name(sg, 'get_signatures', inp)
                            bs = sg.bracket_start
                            if text_at(lines_of(path), bs[0], bs[1], 1) != '(':
                                fail('bracket_start-not-a-paren@get_signatures', inp,
                                     {'bracket_start': bs})
                            for p in sg.params:
                                check_name(p, 'get_signatures.param', inp)
                    except Exception as e:
                        fail(canon.exc_site(e), inp, {'tb': canon.short_tb(e)})
        out['kinds'] = sorted(map(list, kinds))
        return out
    finally:
        shutil.rmtree(base, ignore_errors=True)


EDIT_PROGRAM = {
    'shapes.py': 'import math\n\n\ndef compute_area(radius):\n    return math.pi * radius ** 2\n\n\n'
                 'class Shape:\n    def describe(self, label):\n        return label\n',
    'main.py': 'from shapes import compute_area, Shape\n\nvalue = compute_area(2)\n'
               'Shape().describe("x")\n',
}
EDITS = {   # file -> list of (description, transform)
    'insert-lines-on-top': lambda t: '# header\nVERSION = 1\n\n' + t,
    'make-async-and-insert': lambda t: t.replace('def compute_area(radius):',
                                                 'def compute_volume(r):\n    return r\n\n\nasync def compute_area(radius):'),
    'add-parameter-and-move': lambda t: '\n\n' + t.replace('(radius)', '(radius, scale=1)')
                                                     .replace('(self, label)', '(self, label, more=0)'),
}


def check_history(task):
    """Two-step histories: ask, change a file (on disk, mtime advanced) or the buffer, ask again
    in the same process; every position reported after the change must be faithful to the NEW
    text.  (Seeded changes that cache name lists / signatures across the change are caught here.)"""
    import parso
    jedi = boot.boot()
    env = boot.environment()
    name = task['edit']
    base = os.path.join(boot.scratch_root(), 'c17h', '%d_%s' % (os.getpid(), name))
    shutil.rmtree(base, ignore_errors=True)
    os.makedirs(base)
    out = {'id': 'history:' + name, 'fails': [], 'evals': 0, 'names_checked': 0, 'kinds': [],
           'variants': 1}
    try:
        files = dict(EDIT_PROGRAM)
        execute.write_tree(base, files)
        t0 = 1_600_000_000
        for rel in files:
            os.utime(os.path.join(base, rel), (t0, t0))
        project = jedi.Project(base)

        def faithful(n, how, step):
            mp = n.module_path
            if mp is None or not str(mp).startswith(base + os.sep) or n.line is None \
                    or n.type in ('module', 'namespace') or not n.name.isidentifier():
                return
            out['names_checked'] += 1
            with open(mp, encoding='utf-8', newline='') as f:
                ls = parso.split_lines(f.read(), keepends=True)
            got = text_at(ls, n.line, n.column, len(n.name))
            if got != n.name or n.get_line_code() != ls[n.line - 1]:
                out['fails'].append({
                    'site': 'stale-position-after-change@%s' % how,
                    'input': 'history:%s|%s|%s' % (name, step, how),
                    'detail': {'name': n.name, 'pos': [n.line, n.column], 'found': got,
                               'line_code': n.get_line_code(), 'file': os.path.basename(str(mp)),
                               'edit': name, 'text': files}})

        def ask(step):
            for s in ('compute_area', 'describe', 'Shape', 'compute'):
                out['evals'] += 2
                for n in project.search(s):
                    faithful(n, 'Project.search', step)
                for n in project.complete_search(s):
                    faithful(n, 'Project.complete_search', step)
            main = files['main.py']
            sc = jedi.Script(main, path=os.path.join(base, 'main.py'), environment=env,
                             project=project)
            for li, ln in enumerate(main.split('\n'), 1):
                for ci, ch in enumerate(ln):
                    if ch == '(':
                        out['evals'] += 1
                        for sg in sc.get_signatures(li, ci + 1):
                            faithful(sg, 'get_signatures', step)
                            for p in sg.params:
                                faithful(p, 'get_signatures.param', step)
            for (l, c, s) in ident_tokens(main):
                out['evals'] += 2
                for n in sc.goto(l, c, follow_imports=True):
                    faithful(n, 'goto', step)
                for n in sc.infer(l, c):
                    faithful(n, 'infer', step)
            # the same for the library file as the edited buffer
            lib = files['shapes.py']
            sl = jedi.Script(lib, path=os.path.join(base, 'shapes.py'), environment=env,
                             project=project)
            for n in sl.get_names(all_scopes=True, references=True):
                faithful(n, 'get_names', step)
            for li, ln in enumerate(lib.split('\n'), 1):
                for ci, ch in enumerate(ln):
                    if ch == '(':
                        for sg in sl.get_signatures(li, ci + 1):
                            faithful(sg, 'get_signatures', step)
        try:
            ask('before')
            files['shapes.py'] = EDITS[name](files['shapes.py'])
            execute.write_tree(base, {'shapes.py': files['shapes.py']})
            os.utime(os.path.join(base, 'shapes.py'), (t0 + 10, t0 + 10))
            os.utime(base, (t0 + 10, t0 + 10))
            ask('after')
            ask('after-again')
        except Exception as e:
            out['fails'].append({'site': canon.exc_site(e), 'input': 'history:%s' % name,
                                 'detail': {'tb': canon.short_tb(e), 'text': files}})
        return out
    finally:
        shutil.rmtree(base, ignore_errors=True)


def check_disk_text(task):
    """Scripts that read their text from DISK (no `code` argument): positions must be faithful
    to the file as Python decodes it.  Variants: a PEP 263 latin-1 file with non-ASCII bytes in
    front of identifiers (own file and reached through an import); an unsaved buffer analysed
    first under the same path, then the file analysed by path only."""
    import parso
    import tokenize as _tk
    jedi = boot.boot()
    env = boot.environment()
    name = task['variant']
    base = os.path.join(boot.scratch_root(), 'c17d', '%d_%s' % (os.getpid(), name))
    shutil.rmtree(base, ignore_errors=True)
    os.makedirs(base)
    out = {'id': 'disk:' + name, 'fails': [], 'evals': 0, 'names_checked': 0, 'kinds': [],
           'variants': 1}
    try:
        lib_text = ('# -*- coding: latin-1 -*-\n'
                    's = "\u00e9\u00e9\u00e9"; width = len(s)\n'
                    'def area(h):  # caf\u00e9 \u00fc\n    return width * h\n'
                    't = "\u00e9"; total = area(2); total\n')
        enc = 'latin-1' if name.startswith('latin1') else 'utf-8'
        if enc == 'utf-8':
            lib_text = lib_text.replace('# -*- coding: latin-1 -*-', '# plain utf-8 file')
        with open(os.path.join(base, 'shapes.py'), 'wb') as f:
            f.write(lib_text.encode(enc))
        main = 'import shapes\nshapes.width\nshapes.area(3)\nshapes.total\n'
        with open(os.path.join(base, 'main.py'), 'w') as f:
            f.write(main)
        project = jedi.Project(base)

        def disk_lines(p):
            with _tk.open(p) as f:       # decodes the way Python does (PEP 263)
                return parso.split_lines(f.read(), keepends=True)

        def faithful(n, how):
            mp = n.module_path
            if mp is None or not str(mp).startswith(base + os.sep) or n.line is None \
                    or n.type in ('module', 'namespace') or not n.name.isidentifier():
                return
            out['names_checked'] += 1
            ls = disk_lines(str(mp))
            got = text_at(ls, n.line, n.column, len(n.name))
            lc = n.get_line_code()
            if got != n.name or lc != ls[n.line - 1]:
                out['fails'].append({
                    'site': 'position-not-faithful-to-file-on-disk@%s' % how,
                    'input': 'disk:%s|%s|%s@%s:%s' % (name, how, n.name, n.line, n.column),
                    'detail': {'name': n.name, 'pos': [n.line, n.column], 'found': got,
                               'line_code': lc, 'file': os.path.basename(str(mp)),
                               'variant': name, 'text': lib_text}})
        try:
            p = os.path.join(base, 'shapes.py')
            if name.endswith('unsaved-first'):
                # an editor analysed an UNSAVED version of the file a moment ago
                unsaved = 'import os\n\n\n' + lib_text.replace('width', 'circumference')
                s0 = jedi.Script(unsaved, path=p, environment=env, project=project)
                out['evals'] += 1
                s0.get_names(all_scopes=True, references=True)
            sc = jedi.Script(path=p, environment=env, project=project)      # text from disk
            out['evals'] += 1
            for n in sc.get_names(all_scopes=True, references=True):
                faithful(n, 'get_names')
            for (l, c, s_) in ident_tokens(''.join(disk_lines(p))):
                out['evals'] += 2
                for n in sc.goto(l, c):
                    faithful(n, 'goto')
                for n in sc.infer(l, c):
                    faithful(n, 'infer')
            sm = jedi.Script(main, path=os.path.join(base, 'main.py'), environment=env,
                             project=project)
            for (l, c, s_) in ident_tokens(main):
                out['evals'] += 2
                for n in sm.goto(l, c, follow_imports=True):
                    faithful(n, 'goto-through-import')
                for n in sm.infer(l, c):
                    faithful(n, 'infer-through-import')
            for n in project.search('area'):
                faithful(n, 'Project.search')
        except Exception as e:
            out['fails'].append({'site': canon.exc_site(e), 'input': 'disk:%s' % name,
                                 'detail': {'tb': canon.short_tb(e), 'text': lib_text}})
        return out
    finally:
        shutil.rmtree(base, ignore_errors=True)


def _work(task):
    if task['kind'] == 'disk':
        return check_disk_text(task)
    if task['kind'] == 'history':
        return check_history(task)
    if task['kind'] == 'pf':
        prog = pf.build(task['src'], task['chain'])
        files = prog.render()
        text = files.pop('main.py')
        tid = prog.pid()
    else:
        text = dict(corpus.all_files())[task['name']]
        files = {}
        tid = 'file:' + task['name']
    res = {'id': tid, 'fails': [], 'evals': 0, 'names_checked': 0, 'kinds': [], 'variants': 0}
    for lay, lf, final in layouts.variants(text, task['tier']):
        try:
            ast.parse(lf)
        except SyntaxError:
            continue
        if task['kind'] == 'file' and lay.startswith(('continuation', 'tabs', 'unicode', 'compat')):
            continue          # content transforms are defined for generated programs only
        r = check_text('%s/%s' % (tid, lay), lf, final, files, task['tier'])
        res['variants'] += 1
        for k in ('evals', 'names_checked'):
            res[k] += r[k]
        res['fails'] += r['fails']
        res['kinds'] = sorted(set(map(tuple, res['kinds'])) | set(map(tuple, r['kinds'])))
    return res


def _levels(tier):
    lv = [('two-step histories: ask, change shapes.py on disk, ask again',
           [dict(kind='history', edit=e, tier=tier) for e in sorted(EDITS)]),
          ('text read from disk: PEP 263 latin-1 / utf-8 x {path only, unsaved buffer first}',
           [dict(kind='disk', variant=v, tier=tier) for v in
            ('latin1', 'utf8', 'latin1-unsaved-first', 'utf8-unsaved-first')])]
    core = [c for c in pf.CARRIER_NAMES if c in pf.CORE]
    if tier == 'quick':
        lv.append(('PF depth<=1 x {inst}', [dict(kind='pf', src='inst', chain=[], tier=tier)] +
                   [dict(kind='pf', src='inst', chain=[c], tier=tier) for c in pf.CARRIER_NAMES]))
        lv.append(('corpus files <= 45 lines', [dict(kind='file', name=n, tier=tier)
                                                for n, t in corpus.quick_files()
                                                if t.count('\n') <= 45]))
    else:
        lv.append(('PF depth<=1 x {inst,cls,func}',
                   [dict(kind='pf', src=s, chain=c, tier=tier)
                    for s, c in pf.enumerate_programs(1, ['inst', 'cls', 'func'])]))
        lv.append(('PF depth2 core pairs x {inst}',
                   [dict(kind='pf', src='inst', chain=c, tier=tier)
                    for _, c in pf.enumerate_programs(2, ['inst'], core)]))
        lv.append(('corpus files <= 200 lines', [dict(kind='file', name=n, tier=tier)
                                                 for n, t in corpus.all_files()
                                                 if t.count('\n') <= 200 and t.strip()]))
    return lv


def run(ctx):
    states = trans = names = 0
    kinds = set()
    done = []
    samples = []
    exhaustive = True
    for name, tasks in _levels(ctx.tier):
        if ctx.time_left() < 10:
            exhaustive = False
            ctx.note('level %s not started (time cap)' % name)
            continue
        pres = pool.run(tasks, 'jv.props.c17:_work', init='jv.props.c17:_init', seed=ctx.seed,
                        deadline=ctx.deadline, tag='c17')
        ctx.absorb(pres, name)
        for i, t in enumerate(tasks):
            if i in pres.crashed:
                ctx.violation('WorkerDied(exit=%s)' % pres.crashed[i], str(t), {'task': t},
                              {'task': t})
                continue
            r = pres.results.get(i)
            if r is None:
                continue
            states += r['variants']
            trans += r['evals']
            names += r['names_checked']
            kinds.update(map(tuple, r['kinds']))
            for f in r['fails']:
                ctx.violation(f['site'], f['input'], f['detail'], {'task': t, 'input': f['input']})
        if pres.skipped:
            exhaustive = False
            ctx.note('level %s: %d of %d texts not explored (time cap)'
                     % (name, len(pres.skipped), len(tasks)))
        else:
            done.append('%s: %d texts' % (name, len(tasks)))
        samples.append({'level': name, 'task': tasks[len(tasks) // 2]})
    ctx.coverage.update({
        'states': states, 'transitions': trans, 'evaluations': trans,
        'result_objects_position_checked': names, 'distinct_nontrivial': len(kinds),
        'rule': 'state = (text, layout); transition = one query; every Name/Completion/Signature/'
                'ParamName pointing into the buffer or a project file is checked against the text; '
                'distinct_nontrivial = distinct (result class, Name.type, query) triples checked',
        'levels_completed': done, 'exhaustive': exhaustive, 'samples': samples,
        'layouts': [v[0] for v in layouts.variants('x = 1\n', ctx.tier)],
    })
    ctx.assumptions += [
        'configuration `stubs`; results pointing into typeshed or with type module/namespace are '
        'outside the property ("points into the analysed buffer or a project file")',
        'is_definition is judged for ast Store/Load names, attribute targets, def/class names, '
        'parameters, `as` targets and keyword-argument names; global/nonlocal statement names, '
        'del targets and dotted import parts are not judged',
    ]


def replay(case):
    _init()
    r = _work(case['task'])
    return [(f['site'], f['input'], {k: v for k, v in f['detail'].items() if k != 'text'})
            for f in r['fails'] if 'input' not in case or f['input'] == case['input']]
