"""C10 — import statements resolve to what Python's import system would load.

Engine E1 (DESIGN §4 C10, §3.6): every small project tree (node kinds: module, regular package,
namespace directory; names from a two/three-name pool in which one name is a string prefix of
the other; sibling clashes `a.py` next to `a/`; one root, two roots in every order, a root nested
inside another root in both orders) x every import form (`import a.b`, `import a.b as c`,
`from a import b`, `from a import b as c`, `from . import x`, `from ..p import q`,
`from a import *` followed by uses) issued from a script outside sys.path (`__main__`) and from
every importable module of the tree.

Oracle: a clean child interpreter (`python -I -S`, jv/c10_child.py) with sys.path = roots +
stdlib really imports the issuing module (its source replaced in the loader by the statement
under test) under two import orders and reports the file / namespace directory set / nothing
for every probed name.  `infer` and `goto(follow_imports=True)` must give exactly that.
Second clause: the dotted name jedi derives for a file must import back to that file in the
child.

Shared-Project histories: one default ("smart" sys.path) `jedi.Project` object (also with
`added_sys_path`) analyses scripts in different sibling folders one after the other, all
alternating pairs/triples (2 folders) and all orders (3 folders) x all module subsets per
folder.  Oracle for every step: the child with sys.path = script folder + project root
(+ added entries) for that script alone - earlier scripts must not leak into later answers.
"""
import json
import os
import shutil
import subprocess
import sys
from pathlib import Path

from .. import boot, canon, pool

ID = 'C10'
BUDGET = {'quick': 480, 'thorough': 2400}

POOL2 = ('a', 'ab')          # 'a' is a string prefix of 'ab' on purpose (prefix-test bugs)
POOL3 = ('a', 'ab', 'b')
DEFNAME = 'ab'               # every .py file of a tree defines `class ab`
BASE_SRC = 'class %s:\n    pass\n' % DEFNAME
CHILD = os.path.join(os.path.dirname(os.path.dirname(os.path.abspath(__file__))), 'c10_child.py')
CHILD_PY = '/venv/bin/python'
METHODS = (('infer', {}), ('goto', {'follow_imports': True}))
CONDS = 'ABCD'


# ------------------------------------------------------------------------------------------
# tree enumeration (DESIGN §3.6)
# content = tuple of entries (name, kind, sub); kind M (name.py), P (name/__init__.py + sub),
# N (name/ without __init__ + sub); at most one file and one directory per name.

_memo = {}


def contents(names, depth, budget):
    """All directory contents with <= budget nodes and <= depth levels -> ((content, n), ...)."""
    key = (names, depth, budget)
    if key in _memo:
        return _memo[key]
    out = []

    def rec(i, left):
        if i == len(names):
            yield (), 0
            return
        name = names[i]
        opts = [((), 0)]
        if left >= 1:
            opts.append((((name, 'M', None),), 1))
            subs = contents(names, depth - 1, left - 1) if depth > 1 else (((), 0),)
            for kind in 'PN':
                for sub, n in subs:
                    opts.append((((name, kind, sub),), 1 + n))
                    if 2 + n <= left:
                        opts.append((((name, 'M', None), (name, kind, sub)), 2 + n))
        for o, n in opts:
            if n > left:
                continue
            for rest, m in rec(i + 1, left - n):
                yield o + rest, n + m
    if budget >= 0:
        out = sorted(rec(0, budget), key=lambda cn: (cn[1], cstr(cn[0])))
    _memo[key] = tuple(out)
    return _memo[key]


def cstr(content):
    parts = []
    for name, kind, sub in content:
        if kind == 'M':
            parts.append(name + '.py')
        else:
            parts.append('%s%s(%s)' % (name, '+' if kind == 'P' else '~', cstr(sub)))
    return ','.join(parts)


def _layout(roots, path):
    lid = ';'.join('%s=%s' % (d, cstr(c)) for d, c in roots) + '|path=' + ','.join(path)
    return {'id': lid, 'roots': [[d, _tolist(c)] for d, c in roots], 'path': list(path)}


def _tolist(content):
    return [[n, k, None if s is None else _tolist(s)] for n, k, s in content]


def fam_single(names, depth, nodes):
    for c, n in contents(names, depth, nodes):
        if n:
            yield _layout([('r1', c)], ['r1'])


def fam_pairs(names, depth, nodes):
    """Two roots, every ordered pair of non-empty contents (= both orders of sys.path).  The
    directory that comes first on sys.path is named 'rb', the second 'ra', so that path order
    is never the lexicographic order of the directory names."""
    for c1, n1 in contents(names, depth, nodes):
        if not n1:
            continue
        for c2, n2 in contents(names, depth, nodes - n1):
            if n2:
                yield _layout([('rb', c1), ('ra', c2)], ['rb', 'ra'])


def fam_nested(names, depth, nodes):
    """A sys.path entry inside another one (project root + a source directory in it), both
    orders, for every top-level directory of every single-root tree."""
    for c, n in contents(names, depth, nodes):
        for name, kind, sub in c:
            if kind in 'PN':
                inner = 'r1/' + name
                yield _layout([('r1', c)], [inner, 'r1'])
                yield _layout([('r1', c)], ['r1', inner])


def fam_spine(names, znames=None):
    """x/{y/z.py, w/v.py}: the smallest shape on which `from ..w import v` is meaningful at
    depth 3; all kinds for x, y, w and all names (y != w)."""
    for x in names:
        for kx in 'PN':
            for y in names:
                for ky in 'PN':
                    for w in names:
                        if w == y:
                            continue
                        for kw in 'PN':
                            for z in znames or names:
                                for v in names:
                                    inner = tuple(sorted([(y, ky, ((z, 'M', None),)),
                                                          (w, kw, ((v, 'M', None),))]))
                                    yield _layout([('r1', ((x, kx, inner),))], ['r1'])


def fam_nsclash(names, nroots, kinds='MPN'):
    """A namespace package x split over nroots sys.path roots with the SAME sub-module name y
    in every portion (module / regular package / namespace directory per portion), the roots
    on sys.path in every order (directory names ra, rb, rc: most orders are not alphabetical)."""
    import itertools
    dirs = ['ra', 'rb', 'rc'][:nroots]
    for x in names:
        for y in names:
            for ks in itertools.product(kinds, repeat=nroots):
                roots = [(d, ((x, 'N', ((y, k, None if k == 'M' else ()),)),))
                         for d, k in zip(dirs, ks)]
                for path in itertools.permutations(dirs):
                    yield _layout(roots, list(path))


def fam_subdir(names, depths, variants):
    """Script <name>.py in a plain (no __init__.py) directory d/ or d/e/ below the project
    root x the root holding, per pool name, nothing / a module / a regular package x optional
    sibling modules next to the script x Project flavour (default smart sys.path | explicit
    sys_path=[root] with smart_sys_path=False)."""
    import itertools
    for rootkinds in itertools.product(('-', 'M', 'P'), repeat=len(names)):
        for script in names:
            others = [n for n in names if n != script]
            for sib in _subsets(tuple(others)):
                for depth in depths:
                    for variant in variants:
                        root = {n: k for n, k in zip(names, rootkinds) if k != '-'}
                        sd = '/'.join(['d', 'e'][:depth])
                        yield {'kind': 'subdir', 'root': root, 'script': script,
                               'siblings': list(sib), 'depth': depth, 'variant': variant,
                               'id': 'subdir-script:root=%s|%s/%s.py%s|%s' % (
                                   ','.join('%s:%s' % (n, root[n]) for n in sorted(root)), sd,
                                   script, ''.join('+' + m for m in sib), variant)}


def families(tier):
    if tier == 'quick':
        return [
            # cheap (flat trees, ~60 core-s together): first, so that a time cap never cuts them
            ('shared-project/2 folders/histories<=3', list(fam_shared(2, ['smart', 'added']))),
            ('shared-project/3 folders/all orders', list(fam_shared(3, ['smart']))),
            ('namespace-portions-clash/2 roots/both orders', list(fam_nsclash(POOL2, 2))),
            ('script-in-plain-subdir/smart on+off', list(fam_subdir(POOL2, (1, 2), ('smart', 'plain')))),
            ('single-root<=3 nodes/depth3/pool2', list(fam_single(POOL2, 3, 3))),
            ('two-roots<=3 nodes/depth3/pool2', list(fam_pairs(POOL2, 3, 3))),
            ('nested-root<=3 nodes/depth2/pool2', list(fam_nested(POOL2, 2, 3))),
            ('spine(5 nodes, z=a)/pool2', list(fam_spine(POOL2, POOL2[:1]))),
        ]
    return [
        ('shared-project/2 folders/histories<=3', list(fam_shared(2, ['smart', 'added']))),
        ('shared-project/3 folders/all orders', list(fam_shared(3, ['smart', 'added']))),
        ('namespace-portions-clash/2 roots/both orders', list(fam_nsclash(POOL2, 2))),
        ('namespace-portions-clash/3 roots/all orders', list(fam_nsclash(POOL2, 3, 'MP'))),
        ('script-in-plain-subdir/smart on+off', list(fam_subdir(POOL3, (1, 2), ('smart', 'plain')))),
        ('single-root<=4 nodes/depth4/pool2', list(fam_single(POOL2, 4, 4))),
        ('two-roots<=4 nodes/depth4/pool2', list(fam_pairs(POOL2, 4, 4))),
        ('nested-root<=4 nodes/depth4/pool2', list(fam_nested(POOL2, 4, 4))),
        ('spine(5 nodes)/pool2', list(fam_spine(POOL2))),
        ('single-root<=3 nodes/depth3/pool3', list(fam_single(POOL3, 3, 3))),
        ('spine(5 nodes, z=a)/pool3', list(fam_spine(POOL3, POOL3[:1]))),
    ]


# ------------------------------------------------------------------------------------------
# materialisation and program generation

def _walk(content, prefix=()):
    """-> [(dotted tuple, kind, relative file or dir)]"""
    for name, kind, sub in content:
        p = prefix + (name,)
        yield p, kind
        if kind != 'M':
            yield from _walk(sub, p)


def _names_used(layout):
    s = set()
    for _, c in layout['roots']:
        for p, _k in _walk(_totuple(c)):
            s.update(p)
    return s


def _totuple(content):
    return tuple((n, k, None if s is None else _totuple(s)) for n, k, s in content)


def materialise(layout, base):
    """Writes the tree; returns list of .py files (absolute) under the roots."""
    files = []

    def put(content, d):
        os.makedirs(d, exist_ok=True)
        for name, kind, sub in content:
            if kind == 'M':
                f = os.path.join(d, name + '.py')
                with open(f, 'w') as fh:
                    fh.write(BASE_SRC)
                files.append(f)
            else:
                sd = os.path.join(d, name)
                os.makedirs(sd, exist_ok=True)
                if kind == 'P':
                    f = os.path.join(sd, '__init__.py')
                    with open(f, 'w') as fh:
                        fh.write(BASE_SRC)
                    files.append(f)
                put(sub, sd)
    for d, c in layout['roots']:
        put(c, os.path.join(base, d))
    main = os.path.join(base, 'main.py')
    with open(main, 'w') as fh:
        fh.write('')
    return files, main


def _dotted_for(root, f):
    rel = os.path.relpath(f, root)
    if rel.startswith('..'):
        return None
    parts = rel[:-3].split(os.sep)
    if parts[-1] == '__init__':
        parts = parts[:-1]
    if not parts:
        return None
    return '.'.join(parts)


class _Stmt:
    def __init__(self):
        self.text = ''
        self.probes = []

    def add(self, s, probe=None):
        if probe is not None:
            self.probes.append(list(probe) + [len(self.text)])
        self.text += s
        return self


def _dotted_parts(st, t, level=0, upto=None):
    """append `a.b.c` with a module probe on every component"""
    for i, n in enumerate(t):
        if i:
            st.add('.')
        st.add(n, ('mod', level, '.'.join(t[:i + 1])))


def gen_statements(targets, names, rel_levels, aliases=True):
    """-> [(form, level, stmt text, uses, probes)]; probes = [kind, a, b, line, col]."""
    out = []

    def fin(form, level, st, uses=()):
        probes = [p[:-1] + [1, p[-1]] for p in st.probes]
        for k, u in enumerate(uses):
            probes.append(['bind', u, None, 2 + k, 0])
        out.append((form, level, st.text, list(uses), probes))

    for t in targets:
        st = _Stmt().add('import ')
        _dotted_parts(st, t)
        fin('import', 0, st)
        st = _Stmt().add('import ')
        _dotted_parts(st, t)
        st.add(' as ').add('c', ('bind', 'c', None))
        fin('import-as', 0, st)
        if len(t) >= 2:
            st = _Stmt().add('from ')
            _dotted_parts(st, t[:-1])
            st.add(' import ').add(t[-1], ('bind', t[-1], None))
            fin('from-import', 0, st)
            if aliases:
                st = _Stmt().add('from ')
                _dotted_parts(st, t[:-1])
                st.add(' import ' + t[-1] + ' as ').add('c', ('bind', 'c', None))
                fin('from-import-as', 0, st)
        st = _Stmt().add('from ')
        _dotted_parts(st, t)
        st.add(' import *')
        fin('star', 0, st, names)
    for level in rel_levels:
        dots = '.' * level
        for n in names:
            st = _Stmt().add('from ' + dots + ' import ').add(n, ('bind', n, None))
            fin('rel-from', level, st)
        st = _Stmt().add('from ' + dots + ' import *')
        fin('rel-star', level, st, names)
        for n in names:
            for m in names:
                st = _Stmt().add('from ' + dots)
                _dotted_parts(st, (n,), level)
                st.add(' import ').add(m, ('bind', m, None))
                fin('rel-from-mod', level, st)
            st = _Stmt().add('from ' + dots)
            _dotted_parts(st, (n,), level)
            st.add(' import *')
            fin('rel-star-mod', level, st, names)
    return out


def child_src(stmt):
    return 'try:\n    %s\nexcept BaseException as _jv_e:\n    _jv_exc = _jv_e\n' % stmt


def plan(layout, base, tier='quick'):
    """Everything about one materialised layout that does not need jedi or the child."""
    files, main = materialise(layout, base)
    sys_path = [os.path.join(base, p) for p in layout['path']]
    names = tuple(n for n in POOL3 if n in _names_used(layout) or n in POOL2)
    # existing dotted paths as seen from every sys.path entry
    existing = set()
    for sp in sys_path:
        for dirpath, dirnames, filenames in os.walk(sp):
            rel = os.path.relpath(dirpath, sp)
            pre = () if rel == '.' else tuple(rel.split(os.sep))
            for d in dirnames:
                existing.add(pre + (d,))
            for f in filenames:
                if f.endswith('.py') and f != '__init__.py':
                    existing.add(pre + (f[:-3],))
    # dotted targets: every pool name under every existing node (and at top level); thorough
    # adds every two-component name, i.e. also those whose first component does not exist
    targets = set((n,) for n in names)
    if tier != 'quick':
        targets |= set((x, y) for x in names for y in names)
    for p in existing:
        if len(p) <= 2:
            for n in names:
                targets.add(p + (n,))
    targets = sorted(targets, key=lambda t: (len(t), t))
    file_names = []
    maxk = {}
    for f in files:
        cands = []
        for sp in sys_path:
            d = _dotted_for(sp, f)
            if d and d not in cands:
                cands.append(d)
        file_names.append([f, cands])
        is_pkg = os.path.basename(f) == '__init__.py'
        maxk[f] = max([len(c.split('.')) - (0 if is_pkg else 1) for c in cands] or [0])
    all_names = sorted({'.'.join(p) for p in existing})
    programs = []
    al = tier != 'quick'
    abs_stmts = gen_statements(targets, names, [], al)
    for f in [main] + files:
        is_main = f == main
        if is_main:
            stmts = abs_stmts + gen_statements([], names[:1], [1])[:1]
        elif tier != 'quick':
            stmts = abs_stmts + gen_statements([], names, range(1, maxk[f] + 2))
        else:
            # quick: from a module on sys.path an absolute form is issued only where the issuing
            # location could matter: its first component names the module's own top-level
            # package/module (self / circular reference) or, inside a package, a sibling in
            # the module's own directory (what an implicit relative import would pick).
            # Beyond-top-level relative imports: one form.
            d = os.path.dirname(f)
            tops = {c.split('.')[0] for c in dict(file_names)[f]}
            near = set(tops)
            if maxk[f] > 0:
                near |= {n for n in names if os.path.exists(os.path.join(d, n + '.py'))
                         or os.path.isdir(os.path.join(d, n))}
            stmts = gen_statements([t for t in targets if t[0] in near], names, [], al) \
                + gen_statements([], names, range(1, maxk[f] + 1)) \
                + gen_statements([], names[:1], [maxk[f] + 1])[:1]
        rel = os.path.relpath(f, base)
        for form, level, text, uses, probes in stmts:
            programs.append({
                'pid': rel + '|' + text, 'file': f, 'main': is_main, 'form': form,
                'level': level, 'stmt': text,
                'code': text + '\n' + ''.join(u + '\n' for u in uses),
                'src': child_src(text), 'probes': probes})
    return {'base': base, 'files': files, 'main': main, 'sys_path': sys_path, 'names': names,
            'file_names': file_names, 'all_names': all_names, 'programs': programs}


# ------------------------------------------------------------------------------------------
# jedi side

def _init():
    boot.boot()
    boot.environment()


_counter = [0]


def _fresh_base():
    _counter[0] += 1
    d = os.path.join(boot.scratch_root(), 'c10', 'w%d' % os.getpid(), 't%d' % _counter[0])
    os.makedirs(d)
    return d


def _forget(base, only=None):
    """Drop parso's in-memory trees of this tree's files (or of one file): the issuing
    module's *buffer* (the statement under test) must not be served later as the content of
    the file on disk."""
    import parso.cache
    for g in parso.cache.parser_cache.values():
        if only is not None:
            for p in [p for p in g if str(p) == only]:
                del g[p]
            continue
        for p in [p for p in g if str(p).startswith(base)]:
            del g[p]


def _project(jedi, pl):
    return jedi.Project(pl['base'], sys_path=list(pl['sys_path']), smart_sys_path=False)


def jedi_names(jedi, env, pl):
    """clause 2 observations: file -> {'ctx': name or exception, 'tptd': name}"""
    from jedi.inference.sys_path import transform_path_to_dotted
    out = {}
    for f in pl['files'] + [pl['main']]:
        rec = {}
        try:
            s = jedi.Script(path=f, project=_project(jedi, pl), environment=env)
            c = s.get_context()
            rec['ctx'] = c.full_name if c.type == 'module' else '?' + str(c.type)
        except Exception as e:
            rec['ctx_exc'] = [canon.exc_site(e), canon.short_tb(e)]
        try:
            names, is_pkg = transform_path_to_dotted(list(pl['sys_path']), Path(f))
            rec['tptd'] = None if names is None else '.'.join(names)
        except Exception as e:
            rec['tptd_exc'] = [canon.exc_site(e), canon.short_tb(e)]
        out[f] = rec
    return out


def _canon_name(d):
    t = d.type
    if t == 'namespace':
        paths = set()
        for v in d._name.infer():
            pp = v.py__path__()
            if pp:
                paths.update(str(p) for p in pp)
        return ['namespace', sorted(paths)]
    mp = d.module_path
    if t in ('module', 'class'):
        return [t, None if mp is None else str(mp)]
    return ['other:' + str(t), None if mp is None else str(mp)]


def run_program(jedi, env, pl, prog):
    """-> per probe per method: sorted list of canonical results, or {'exc': ...}"""
    obs = []
    try:
        script = jedi.Script(prog['code'], path=prog['file'], project=_project(jedi, pl),
                             environment=env)
    except Exception as e:
        _forget(pl['base'], prog['file'])
        return {'script_exc': [canon.exc_site(e), canon.short_tb(e)]}
    for pr in prog['probes']:
        line, col = pr[3], pr[4]
        per = {}
        for m, kw in METHODS:
            try:
                res = getattr(script, m)(line, col, **kw)
                cs = []
                for d in res:
                    c = _canon_name(d)
                    if c not in cs:
                        cs.append(c)
                per[m] = sorted(cs, key=json.dumps)
            except Exception as e:
                per[m] = {'exc': [canon.exc_site(e), canon.short_tb(e)]}
        obs.append(per)
    del script
    _forget(pl['base'], prog['file'])
    return {'obs': obs}


def run_child(docs, names):
    doc = {'pool': list(names), 'trees': docs}
    env = {k: v for k, v in os.environ.items()
           if k not in ('PYTHONPATH', 'PYTHONSTARTUP', 'PYTHONHOME')}
    p = subprocess.run([CHILD_PY, '-I', '-S', '-B', CHILD], input=json.dumps(doc), env=env,
                       capture_output=True, text=True, timeout=1800)
    if p.returncode != 0:
        raise RuntimeError('oracle child failed rc=%s: %s' % (p.returncode, p.stderr[-1500:]))
    return json.loads(p.stdout)


def _rel(x, base):
    """replace the scratch base by <T> everywhere in a JSON value"""
    if isinstance(x, str):
        return x.replace(base, '<T>')
    if isinstance(x, list):
        return [_rel(i, base) for i in x]
    if isinstance(x, dict):
        return {k: _rel(v, base) for k, v in x.items()}
    return x


def _pkg_depth(name, f):
    if name == '__main__':
        return 0
    n = len(name.split('.'))
    return n if os.path.basename(f) == '__init__.py' else n - 1


def judge(layout, pl, jn, ch, jobs):
    """Compare.  -> (fails, counters, classes, samples)"""
    base = pl['base']
    fails = []
    cnt = {}
    classes = set()
    samples = {}

    def inc(k, n=1):
        cnt[k] = cnt.get(k, 0) + n

    def fail(site, iid, detail):
        fails.append({'site': site, 'input': layout['id'] + '|' + iid, 'detail': _rel(detail, base)})

    # ---- clause 2: derived dotted names import back
    usable = {}
    for f in pl['files']:
        rel = os.path.relpath(f, base)
        rec = jn[f]
        valid = ch['valid'].get(f, [])
        inc('files')
        for key, site in (('ctx', 'get_context.full_name'), ('tptd', 'transform_path_to_dotted')):
            if key + '_exc' in rec:
                fail(rec[key + '_exc'][0], 'name:%s|%s' % (rel, key),
                     {'file': f, 'traceback': rec[key + '_exc'][1]})
                continue
            name = rec.get(key)
            if not valid:
                inc('name-unjudged(file not importable under any name: shadowed)')
                continue
            inc('name-judged')
            got = ch['names'].get(name) if name is not None else None
            if got != ['module', f]:
                fail('dotted-name-does-not-import-back@' + site, 'name:%s|%s' % (rel, key),
                     {'file': f, 'sys_path': pl['sys_path'], 'jedi_name': name,
                      'child_imports_that_name_to': got, 'names_importing_this_file': valid})
            elif key == 'ctx':
                usable[f] = name
        if f not in usable and rec.get('ctx') in valid:
            usable[f] = rec['ctx']
    mrec = jn[pl['main']]
    if mrec.get('ctx') == '__main__':
        usable[pl['main']] = '__main__'
    else:
        fail('script-outside-sys-path-not-__main__@get_context.full_name', 'name:main.py|ctx',
             {'file': pl['main'], 'sys_path': pl['sys_path'], 'jedi': mrec})

    # ---- clause 1: programs
    for prog in pl['programs']:
        f = prog['file']
        if f not in usable:
            inc('programs-skipped(issuing file has no importable/derived name)')
            continue
        name = usable[f]
        job = jobs.get(prog['pid'])
        if job is None:
            continue
        inc('programs')
        exp = ch['programs'][prog['pid']].get(name)
        if exp is not None:
            exp = {c: exp.get(c, exp['A']) for c in CONDS}
        if exp is None or any('harness' in exp[c] for c in CONDS):
            raise RuntimeError('oracle gave no answer for %s as %s: %r' % (prog['pid'], name, exp))
        if 'script_exc' in job:
            fail(job['script_exc'][0], prog['pid'] + '|Script',
                 {'code': prog['code'], 'file': f, 'traceback': job['script_exc'][1]})
            continue
        beyond = prog['level'] > _pkg_depth(name, f)
        for k, pr in enumerate(prog['probes']):
            ea, eb, ec, ed = (exp[c]['probes'][k] for c in CONDS)
            label = '%s:%s@%d,%d' % (pr[0], pr[2] if pr[0] == 'mod' else pr[1], pr[3], pr[4])
            for m, _kw in METHODS:
                inc('queries')
                o = job['obs'][k][m]
                iid = '%s|%s|%s' % (prog['pid'], label, m)
                detail = {'issuing_file': f, 'issuing_as': name, 'code': prog['code'],
                          'position': [pr[3], pr[4]], 'sys_path': pl['sys_path'],
                          'python_fresh_order': ea, 'python_all_preimported': eb,
                          'python_repeated_after_importing_everything': ec,
                          'python_repeated_without_submodule_attributes': ed,
                          'python_exception': [exp['A']['exc'], exp['A'].get('msg')],
                          'jedi': o, 'tree': layout['id']}
                if isinstance(o, dict):
                    fail(o['exc'][0], iid, dict(detail, traceback=o['exc'][1]))
                    continue
                excs = {exp[c]['exc'] for c in CONDS} - {None}
                if pr[0] == 'bind' and pr[3] > 1 and os.path.basename(f) == '__init__.py' and (
                        os.path.exists(os.path.join(os.path.dirname(f), pr[1] + '.py'))
                        or os.path.isdir(os.path.join(os.path.dirname(f), pr[1]))):
                    inc('unjudged(bare use of a submodule\'s name inside its package __init__: '
                        'name lookup heuristic, not import resolution)')
                    continue
                if beyond or 'beyond' in (ea[0], eb[0], ec[0], ed[0]):
                    inc('unjudged(relative import beyond top-level package: documented heuristic)')
                    continue
                if excs - {'ModuleNotFoundError', 'ImportError'} or \
                        any(e[0] in ('error', 'other') for e in (ea, eb, ec, ed)):
                    inc('unjudged(unexpected python outcome)')
                    classes.add(('odd', prog['form'], str(ea), str(eb), str(ec), str(ed)))
                    continue
                accept = [ea]
                for e in (eb, ec, ed):
                    if e not in accept:
                        accept.append(e)
                if len(accept) > 1:
                    inc('order-dependent(either accepted)')
                else:
                    inc('judged-strict')
                inc('expect:%s/%s' % (prog['form'], '|'.join(sorted({e[0] for e in accept}))))
                okay = False
                for e in accept:
                    if e == ['none']:
                        okay = okay or o == []
                    else:
                        okay = okay or o == [e]
                classes.add((prog['form'], 'main' if prog['main'] else
                             ('init' if f.endswith('__init__.py') else 'mod'), pr[0],
                             tuple(sorted({e[0] for e in accept})),
                             tuple(x[0] for x in o), okay))
                if okay:
                    if accept[0] != ['none'] and prog['form'] not in samples:
                        samples[prog['form']] = _rel({
                            'tree': layout['id'], 'issuing': os.path.relpath(f, base),
                            'issuing_as': name, 'code': prog['code'], 'probe': label,
                            'method': m, 'python': accept, 'jedi': o}, base)
                    continue
                if o == []:
                    site = 'unresolved@' + m
                elif all(e == ['none'] for e in accept):
                    site = 'resolved-but-python-finds-nothing@' + m
                else:
                    site = 'wrong-target@' + m
                fail(site, iid, detail)
    return fails, cnt, classes, samples


def _work(task):
    """task = {'layouts': [layout...], 'only': optional pid}"""
    if task['layouts'] and task['layouts'][0].get('kind') == 'shared':
        return _work_shared(task)
    if task['layouts'] and task['layouts'][0].get('kind') == 'subdir':
        return _work_subdir(task)
    jedi = boot.boot()
    env = boot.environment()
    plans = []
    docs = []
    for layout in task['layouts']:
        base = _fresh_base()
        pl = plan(layout, base, task.get('tier', 'quick'))
        jn = jedi_names(jedi, env, pl)
        extra = set()
        for f, rec in jn.items():
            for k in ('ctx', 'tptd'):
                if rec.get(k) and not rec[k].startswith('?'):
                    extra.add(rec[k])
        fnames = []
        for f, cands in pl['file_names']:
            c = list(cands)
            for k in ('ctx', 'tptd'):
                v = jn[f].get(k)
                if v and not v.startswith('?') and v not in c:
                    c.append(v)
            fnames.append([f, c])
        only = task.get('only')
        docs.append({'tid': base, 'sys_path': pl['sys_path'],
                     'names': sorted(set(pl['all_names']) | extra - {'__main__'}),
                     'file_names': fnames, 'preimport': pl['all_names'],
                     'programs': [{'pid': p['pid'], 'file': p['file'], 'main': p['main'],
                                   'src': p['src'],
                                   'probes': [[q[0], q[1], q[2]] for q in p['probes']]}
                                  for p in pl['programs'] if only is None or p['pid'] == only]})
        plans.append((layout, pl, jn))
    res = run_child(docs, POOL3)
    for n, d in res['pool_clean'].items():
        if d != ['none']:
            raise RuntimeError('pool name %r is importable without any root: %r' % (n, d))
    out = {'fails': [], 'counts': {}, 'classes': set(), 'layouts': len(plans), 'samples': {}}
    for layout, pl, jn in plans:
        ch = res['trees'][pl['base']]
        jobs = {}
        for prog in pl['programs']:
            if task.get('only') is not None and prog['pid'] != task['only']:
                continue
            jobs[prog['pid']] = run_program(jedi, env, pl, prog)
        fails, cnt, classes, smp = judge(layout, pl, jn, ch, jobs)
        for k, v in smp.items():
            out['samples'].setdefault(k, v)
        for fl in fails:
            fl['layout'] = layout
        out['fails'] += fails
        for k, v in cnt.items():
            out['counts'][k] = out['counts'].get(k, 0) + v
        out['classes'] |= classes
        _forget(pl['base'])
        if not os.environ.get('JV_KEEP_SCRATCH'):
            shutil.rmtree(pl['base'], ignore_errors=True)
    out['classes'] = sorted(map(repr, out['classes']))
    return out


# ------------------------------------------------------------------------------------------
# shared-Project histories: ONE default ("smart") Project object analyses scripts that live in
# different sibling folders, one after the other.  The answer for every script must be what
# Python gives for that script alone (sys.path = script folder + project root + configured
# entries), i.e. it must not depend on which scripts the Project analysed before.

SHARED_NAMES = POOL3 + ('lb',)


def _subsets(names):
    for mask in range(1 << len(names)):
        yield tuple(n for i, n in enumerate(names) if mask >> i & 1)


def fam_shared(nfolders, variants):
    """Folders d1..dn under the project root, each holding a script s.py and any subset of
    the modules a.py/ab.py/b.py (so: same-named modules in several folders and folder-only
    modules); lib/lb.py is the target of added_sys_path in the 'added' variant.
    2 folders: every pair of subsets, histories = alternating sequences of length 2 and 3;
    3 folders: every folder has a.py (+ any subset of ab, b), histories = all orders."""
    import itertools
    if nfolders == 2:
        contents = [(c1, c2) for c1 in _subsets(POOL3) for c2 in _subsets(POOL3)]
        hists = [(0, 1), (1, 0), (0, 1, 0), (1, 0, 1)]
    else:
        subs = [('a',) + c for c in _subsets(POOL3[1:])]
        contents = list(itertools.product(subs, repeat=3))
        hists = list(itertools.permutations(range(3)))
    for cont in contents:
        for variant in variants:
            for h in hists:
                tid = ';'.join('d%d=%s' % (i + 1, ','.join(c)) for i, c in enumerate(cont))
                yield {'kind': 'shared', 'folders': [list(c) for c in cont], 'variant': variant,
                       'history': list(h),
                       'id': 'shared-project:%s|%s|hist=%s' % (
                           tid, variant, ','.join('d%d' % (i + 1) for i in h))}


def _shared_statements():
    out = []
    for n in SHARED_NAMES:
        st = _Stmt().add('import ').add(n, ('mod', 0, n))
        out.append(('import', st))
        st = _Stmt().add('from ').add(n, ('mod', 0, n)).add(' import ').add(
            DEFNAME, ('bind', DEFNAME, None))
        out.append(('from-import', st))
    return [(form, st.text, [p[:-1] + [1, p[-1]] for p in st.probes]) for form, st in out]


_site_checked = []


def _check_env_has_no_pool_names(env):
    if _site_checked:
        return
    for d in env.get_sys_path():
        for n in SHARED_NAMES:
            if d and (os.path.exists(os.path.join(d, n + '.py')) or os.path.isdir(os.path.join(d, n))):
                raise RuntimeError('pool name %r exists in the environment sys.path entry %r' % (n, d))
    _site_checked.append(1)


def _work_shared(task):
    jedi = boot.boot()
    env = boot.environment()
    _check_env_has_no_pool_names(env)
    stmts = _shared_statements()
    plans = []
    docs = []
    for spec in task['layouts']:
        base = _fresh_base()
        proj = os.path.join(base, 'proj')
        scripts = []
        for i, mods in enumerate(spec['folders']):
            d = os.path.join(proj, 'd%d' % (i + 1))
            os.makedirs(d)
            for m in mods:
                with open(os.path.join(d, m + '.py'), 'w') as fh:
                    fh.write(BASE_SRC)
            with open(os.path.join(d, 's.py'), 'w') as fh:
                fh.write('')
            scripts.append(os.path.join(d, 's.py'))
        lib = os.path.join(proj, 'lib')
        os.makedirs(lib)
        with open(os.path.join(lib, 'lb.py'), 'w') as fh:
            fh.write(BASE_SRC)
        added = [lib] if spec['variant'] == 'added' else []
        for i in sorted(set(spec['history'])):
            d = os.path.dirname(scripts[i])
            docs.append({
                'tid': '%s#%d' % (base, i), 'sys_path': [d, proj] + added, 'names': [],
                'file_names': [], 'preimport': sorted(spec['folders'][i]) + (['lb'] if added else []),
                'programs': [{'pid': text, 'file': scripts[i], 'main': True,
                              'src': child_src(text),
                              'probes': [[q[0], q[1], q[2]] for q in probes]}
                             for form, text, probes in stmts]})
        plans.append((spec, base, proj, scripts, added))
    res = run_child(docs, SHARED_NAMES)
    for n, d in res['pool_clean'].items():
        if d != ['none']:
            raise RuntimeError('pool name %r is importable without any root: %r' % (n, d))
    out = {'fails': [], 'counts': {}, 'classes': set(), 'layouts': len(plans), 'samples': {}}

    def inc(k, n=1):
        out['counts'][k] = out['counts'].get(k, 0) + n

    for spec, base, proj, scripts, added in plans:
        # the ONE Project object of this history
        project = jedi.Project(proj, added_sys_path=list(added))
        for step, i in enumerate(spec['history']):
            exp_all = res['trees']['%s#%d' % (base, i)]['programs']
            for form, text, probes in stmts:
                inc('programs')
                exp = exp_all[text]['__main__']
                exp = {c: exp.get(c, exp['A']) for c in CONDS}
                if any('harness' in exp[c] for c in CONDS):
                    raise RuntimeError('oracle gave no answer for %s: %r' % (text, exp))
                obs = None
                try:
                    script = jedi.Script(text + '\n', path=scripts[i], project=project,
                                         environment=env)
                except Exception as e:
                    obs = {'exc': [canon.exc_site(e), canon.short_tb(e)]}
                for k, pr in enumerate(probes):
                    accept = []
                    for c in CONDS:
                        if exp[c]['probes'][k] not in accept:
                            accept.append(exp[c]['probes'][k])
                    label = '%s:%s@%d,%d' % (pr[0], pr[2] if pr[0] == 'mod' else pr[1], pr[3], pr[4])
                    for m, kw in METHODS:
                        inc('queries')
                        iid = '%s|step=%d:d%d/s.py|%s|%s|%s' % (spec['id'], step, i + 1, text,
                                                               label, m)
                        o = obs
                        if o is None:
                            try:
                                cs = []
                                for d in getattr(script, m)(pr[3], pr[4], **kw):
                                    c = _canon_name(d)
                                    if c not in cs:
                                        cs.append(c)
                                o = sorted(cs, key=json.dumps)
                            except Exception as e:
                                o = {'exc': [canon.exc_site(e), canon.short_tb(e)]}
                        detail = _rel({
                            'project': 'jedi.Project(%r%s) shared by all steps' % (
                                proj, ', added_sys_path=[lib]' if added else ''),
                            'scripts_analysed_before': [
                                'd%d/s.py' % (j + 1) for j in spec['history'][:step]],
                            'issuing_file': scripts[i], 'code': text, 'position': [pr[3], pr[4]],
                            'python_sys_path_for_this_script_alone':
                                [os.path.dirname(scripts[i]), proj] + added,
                            'python': accept, 'jedi': o, 'tree': spec['id']}, base)
                        if isinstance(o, dict):
                            out['fails'].append({'site': 'shared-project/' + o['exc'][0],
                                                 'input': iid, 'layout': spec,
                                                 'detail': dict(detail, traceback=o['exc'][1])})
                            continue
                        if any(e[0] in ('error', 'other', 'beyond') for e in accept):
                            inc('unjudged(unexpected python outcome)')
                            continue
                        inc('judged-strict' if len(accept) == 1 else
                            'order-dependent(either accepted)')
                        inc('expect:shared-%s/%s' % (form, '|'.join(sorted({e[0] for e in accept}))))
                        okay = any((o == [] if e == ['none'] else o == [e]) for e in accept)
                        out['classes'].add(('shared-' + form, 'step%d' % step, pr[0],
                                            tuple(sorted({e[0] for e in accept})),
                                            tuple(x[0] for x in o), okay))
                        if okay:
                            if step and accept[0] != ['none']:
                                out['samples'].setdefault('shared-' + form, dict(detail))
                            continue
                        if o == []:
                            site = 'unresolved@' + m
                        elif all(e == ['none'] for e in accept):
                            site = 'resolved-but-python-finds-nothing@' + m
                        else:
                            site = 'wrong-target@' + m
                        out['fails'].append({'site': 'shared-project/' + site, 'input': iid,
                                             'layout': spec, 'detail': detail})
                script = None
                _forget(base, scripts[i])
        _forget(base)
        if not os.environ.get('JV_KEEP_SCRATCH'):
            shutil.rmtree(base, ignore_errors=True)
    out['classes'] = sorted(map(repr, out['classes']))
    return out


# ------------------------------------------------------------------------------------------
# scripts in plain sub-directories of a project (smart sys.path on / off)

def _subdir_statements(names):
    out = []
    for n in names:
        out.append(('import', _Stmt().add('import ').add(n, ('mod', 0, n))))
        out.append(('import-as', _Stmt().add('import ').add(n, ('mod', 0, n)).add(' as ').add(
            'c', ('bind', 'c', None))))
        out.append(('from-import', _Stmt().add('from ').add(n, ('mod', 0, n)).add(
            ' import ').add(DEFNAME, ('bind', DEFNAME, None))))
    return [(form, st.text, [p[:-1] + [1, p[-1]] for p in st.probes]) for form, st in out]


def _work_subdir(task):
    jedi = boot.boot()
    env = boot.environment()
    _check_env_has_no_pool_names(env)
    plans = []
    docs = []
    for spec in task['layouts']:
        base = _fresh_base()
        proj = os.path.join(base, 'proj')
        os.makedirs(proj)
        for n, k in spec['root'].items():
            f = os.path.join(proj, n + '.py')
            if k == 'P':
                os.makedirs(os.path.join(proj, n))
                f = os.path.join(proj, n, '__init__.py')
            with open(f, 'w') as fh:
                fh.write(BASE_SRC)
        parts = ['d', 'e'][:spec['depth']]
        sdir = os.path.join(proj, *parts)
        os.makedirs(sdir)
        for m in [spec['script']] + spec['siblings']:
            with open(os.path.join(sdir, m + '.py'), 'w') as fh:
                fh.write(BASE_SRC)
        script = os.path.join(sdir, spec['script'] + '.py')
        # reference model of the search path jedi documents for this Project flavour:
        # smart = project root, (environment), then every __init__-less directory between the
        # root and the script, outermost first; plain = exactly the configured list
        if spec['variant'] == 'smart':
            project = jedi.Project(proj)
            conf = [proj] + [os.path.join(proj, *parts[:i + 1]) for i in range(len(parts))]
        else:
            project = jedi.Project(proj, sys_path=[proj], smart_sys_path=False)
            conf = [proj]
        names = tuple(sorted(set(POOL2) | set(spec['root']) | {spec['script']} | set(spec['siblings'])))
        stmts = _subdir_statements(names)
        rec = {}
        try:
            c = jedi.Script(path=script, project=project, environment=env).get_context()
            rec['ctx'] = c.full_name if c.type == 'module' else '?' + str(c.type)
        except Exception as e:
            rec['ctx_exc'] = [canon.exc_site(e), canon.short_tb(e)]
        _forget(base, script)
        cands = ['.'.join(parts[i:] + [spec['script']]) for i in range(len(parts) + 1)]
        if rec.get('ctx') and not rec['ctx'].startswith('?') and rec['ctx'] != '__main__' \
                and rec['ctx'] not in cands:
            cands.append(rec['ctx'])
        mods = [spec['script']] + spec['siblings']
        pre = sorted(set(spec['root']) | set(mods) | {'.'.join(parts[:i + 1]) for i in range(len(parts))}
                     | {'.'.join(parts + [m]) for m in mods})
        docs.append({'tid': base, 'sys_path': conf, 'names': cands, 'file_names': [[script, cands]],
                     'preimport': pre,
                     'programs': [{'pid': text, 'file': script, 'main': True, 'src': child_src(text),
                                   'probes': [[q[0], q[1], q[2]] for q in probes]}
                                  for form, text, probes in stmts]})
        plans.append((spec, base, proj, script, project, conf, stmts, rec))
    res = run_child(docs, POOL3)
    out = {'fails': [], 'counts': {}, 'classes': set(), 'layouts': len(plans), 'samples': {}}

    def inc(k, n=1):
        out['counts'][k] = out['counts'].get(k, 0) + n

    for spec, base, proj, script, project, conf, stmts, rec in plans:
        ch = res['trees'][base]
        pdesc = 'jedi.Project(%r)' % proj if spec['variant'] == 'smart' else \
            'jedi.Project(%r, sys_path=[%r], smart_sys_path=False)' % (proj, proj)
        # derived dotted name of the script imports back (with the configured search path)
        valid = ch['valid'].get(script, [])
        if 'ctx_exc' in rec:
            out['fails'].append({'site': 'subdir-script/' + rec['ctx_exc'][0], 'layout': spec,
                                 'input': spec['id'] + '|name|ctx',
                                 'detail': _rel({'file': script, 'traceback': rec['ctx_exc'][1]}, base)})
        elif valid:
            inc('name-judged')
            got = ch['names'].get(rec['ctx'])
            if got != ['module', script]:
                out['fails'].append({
                    'site': 'subdir-script/dotted-name-does-not-import-back@get_context.full_name',
                    'input': spec['id'] + '|name|ctx', 'layout': spec,
                    'detail': _rel({'project': pdesc, 'file': script, 'configured_sys_path': conf,
                                    'jedi_name': rec['ctx'], 'child_imports_that_name_to': got,
                                    'names_importing_this_file': valid}, base)})
        else:
            inc('name-unjudged(file not importable under any name: shadowed)')
        for form, text, probes in stmts:
            inc('programs')
            exp = ch['programs'][text]['__main__']
            exp = {c: exp.get(c, exp['A']) for c in CONDS}
            if any('harness' in exp[c] for c in CONDS):
                raise RuntimeError('oracle gave no answer for %s: %r' % (text, exp))
            obs = None
            try:
                sc = jedi.Script(text + '\n', path=script, project=project, environment=env)
            except Exception as e:
                obs = {'exc': [canon.exc_site(e), canon.short_tb(e)]}
            accepts = []
            for k, pr in enumerate(probes):
                a = []
                for c in CONDS:
                    if exp[c]['probes'][k] not in a:
                        a.append(exp[c]['probes'][k])
                accepts.append(a)
            self_import = any(pr[0] == 'mod' and ['module', script] in a
                              for pr, a in zip(probes, accepts))
            for k, pr in enumerate(probes):
                accept = accepts[k]
                label = '%s:%s@%d,%d' % (pr[0], pr[2] if pr[0] == 'mod' else pr[1], pr[3], pr[4])
                for m, kw in METHODS:
                    inc('queries')
                    iid = '%s|%s|%s|%s' % (spec['id'], text, label, m)
                    o = obs
                    if o is None:
                        try:
                            cs = []
                            for d in getattr(sc, m)(pr[3], pr[4], **kw):
                                c = _canon_name(d)
                                if c not in cs:
                                    cs.append(c)
                            o = sorted(cs, key=json.dumps)
                        except Exception as e:
                            o = {'exc': [canon.exc_site(e), canon.short_tb(e)]}
                    detail = _rel({'project': pdesc, 'issuing_file': script, 'code': text,
                                   'position': [pr[3], pr[4]], 'configured_sys_path': conf,
                                   'python': accept, 'jedi': o, 'tree': spec['id']}, base)
                    if isinstance(o, dict):
                        out['fails'].append({'site': 'subdir-script/' + o['exc'][0], 'input': iid,
                                             'layout': spec,
                                             'detail': dict(detail, traceback=o['exc'][1])})
                        continue
                    if pr[0] == 'bind' and self_import:
                        inc('unjudged(binding taken from the issuing file imported under another '
                            'name: buffer versus file on disk)')
                        continue
                    if any(e[0] in ('error', 'other', 'beyond') for e in accept):
                        inc('unjudged(unexpected python outcome)')
                        continue
                    inc('judged-strict' if len(accept) == 1 else 'order-dependent(either accepted)')
                    inc('expect:subdir-%s/%s' % (form, '|'.join(sorted({e[0] for e in accept}))))
                    okay = any((o == [] if e == ['none'] else o == [e]) for e in accept)
                    out['classes'].add(('subdir-' + form, spec['variant'], pr[0],
                                        tuple(sorted({e[0] for e in accept})),
                                        tuple(x[0] for x in o), okay))
                    if okay:
                        if accept[0] != ['none']:
                            out['samples'].setdefault('subdir-' + form, dict(detail))
                        continue
                    if o == []:
                        site = 'unresolved@' + m
                    elif all(e == ['none'] for e in accept):
                        site = 'resolved-but-python-finds-nothing@' + m
                    else:
                        site = 'wrong-target@' + m
                    out['fails'].append({'site': 'subdir-script/' + site, 'input': iid,
                                         'layout': spec, 'detail': detail})
            sc = None
            _forget(base, script)
        _forget(base)
        if not os.environ.get('JV_KEEP_SCRATCH'):
            shutil.rmtree(base, ignore_errors=True)
    out['classes'] = sorted(map(repr, out['classes']))
    return out


def _batches(layouts, size, tier):
    return [{'layouts': layouts[i:i + size], 'tier': tier} for i in range(0, len(layouts), size)]


def run(ctx):
    counts = {}
    classes = set()
    done = []
    exhaustive = True
    samples = []
    sample_cases = {}
    nlayouts = 0
    for name, layouts in families(ctx.tier):
        if ctx.time_left() < 10:
            exhaustive = False
            ctx.note('level %s not started (time cap)' % name)
            continue
        tasks = _batches(layouts, 8, ctx.tier)
        pres = pool.run(tasks, 'jv.props.c10:_work', init='jv.props.c10:_init',
                        seed=ctx.seed, deadline=ctx.deadline, tag='c10')
        ctx.absorb(pres, name)
        for i, t in enumerate(tasks):
            if i in pres.crashed:
                ctx.violation('WorkerDied(exit=%s)' % pres.crashed[i], t['layouts'][0]['id'],
                              {'layouts': [la['id'] for la in t['layouts']]},
                              {'layout': t['layouts'][0]})
                continue
            r = pres.results.get(i)
            if r is None:
                continue
            nlayouts += r['layouts']
            for k, v in r['counts'].items():
                counts[k] = counts.get(k, 0) + v
            classes.update(r['classes'])
            for k, v in sorted(r.get('samples', {}).items()):
                if k not in sample_cases and i == min(pres.results):
                    sample_cases[k] = v
            for f in r['fails']:
                pid = None
                parts = f['input'][len(f['layout']['id']) + 1:]
                if not parts.startswith('name:') and f['layout'].get('kind') not in ('shared', 'subdir'):
                    pid = '|'.join(parts.split('|')[:2])
                ctx.violation(f['site'], f['input'], f['detail'],
                              {'layout': f['layout'], 'pid': pid, 'input': f['input'],
                               'tier': ctx.tier})
        if pres.skipped:
            exhaustive = False
            ctx.note('level %s: %d of %d batches not explored (time cap)'
                     % (name, len(pres.skipped), len(tasks)))
        else:
            done.append('%s: %d layouts' % (name, len(layouts)))
        if layouts:
            samples.append({'level': name, 'layout': layouts[len(layouts) // 2]['id']})
    ctx.coverage.update({
        'states': counts.get('queries', 0) // len(METHODS) + counts.get('name-judged', 0),
        'transitions': counts.get('queries', 0) + counts.get('name-judged', 0),
        'evaluations': counts.get('queries', 0) + counts.get('name-judged', 0),
        'distinct_nontrivial': len(classes),
        'rule': 'state = (tree layout, issuing module, import statement, probed name) plus one '
                'per (file, name-derivation); transition = one infer/goto(follow_imports) call '
                'or one derived dotted name, each compared with the child interpreter; '
                'distinct_nontrivial = distinct (import form, issuing kind, probe kind, kinds '
                'python selected, kinds jedi returned, verdict) classes',
        'layouts': nlayouts, 'programs': counts.get('programs', 0),
        'levels_completed': done, 'exhaustive': exhaustive,
        'samples': samples + [sample_cases[k] for k in sorted(sample_cases)],
        'counters': {k: counts[k] for k in sorted(counts)},
    })
    ctx.assumptions += [
        'configuration `stubs`; jedi.Project(tree, sys_path=roots, smart_sys_path=False) and a '
        'private SameEnvironment; oracle interpreter /venv/bin/python -I -S with sys.path = '
        'roots + stdlib (pool names a, ab, b are checked not to be importable there)',
        'every .py file of a tree contains `class ab: pass`; the issuing module\'s content is '
        'the import statement alone (jedi: unsaved buffer for that path; child: loader '
        'get_data override) so that the buffer and the imported source are the same text',
        'the child executes every statement under four import orders (fresh; everything else '
        'imported before; executed again after everything was imported; executed again with '
        'the submodule attributes set by the import system removed).  When they agree jedi '
        'must give exactly that answer, otherwise the answer depends on import-order side '
        'effects and any of them is accepted; relative imports beyond the top-level package '
        '(ImportError) are recorded without expectation; `from x import n` failing with '
        'ImportError (x exists, n does not) expects nothing',
        'a bare use (after a star import) of a name that is also a submodule of the issuing '
        'package __init__ is not judged: jedi treats submodule names as module-level names of '
        'a package, which is name lookup, not import resolution',
        'shared-project families: module names live only inside the script folders / lib (never '
        'at the project root or in the environment), so the position of the script folder '
        'within jedi\'s smart sys.path (last) versus Python\'s (first) cannot matter',
        'files that no dotted name imports (shadowed by a package/earlier root) are neither '
        'used as issuing modules nor judged for the derived-name clause',
        'parso\'s in-memory tree of the issuing file (the buffer) is dropped after every '
        'program so that it is never served as the content of the file on disk (editing '
        'history is C08/C09\'s subject); every tree lives in a fresh directory',
    ]


def replay(case):
    _init()
    task = {'layouts': [case['layout']], 'tier': case.get('tier', 'quick')}
    task['only'] = case.get('pid') or '\0no-program'
    r = _work(task)
    out = []
    for f in r['fails']:
        if case.get('input') is None or f['input'] == case['input']:
            out.append((f['site'], f['input'], f['detail']))
    return out
