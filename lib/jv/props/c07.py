"""C07 — refactoring results are self-consistent and touch nothing until applied.

Engine E1 + the two-step history {inspect all getters}·{apply} per request.  Requests: rename
(every distinct bound identifier), inline (every single-assignment variable), extract_variable /
extract_function (every AST expression range) on PF programs in the layouts LF, CRLF, no final
newline, unicode identifiers (CR-only in thorough), the project being on disk.
Oracle: directory snapshot unchanged before apply(); get_diff() is a well-formed unified diff
whose headers are exactly get_changed_files()/get_renames() and which transforms each original
into get_new_code() (own applier; GNU patch as a second applier on LF/CRLF); after apply() the
directory holds exactly the announced contents and names; every line outside the rewritten
statement survives byte for byte (incl. its line ending); failures are RefactoringError only.
"""
import os
import re
import shutil
import subprocess

from .. import boot, canon, execute, pf, pool
from . import c05, c06

ID = 'C07'
BUDGET = {'quick': 300, 'thorough': 2400}
FRESH = 'Zq_fresh'
LAYOUTS_QUICK = ['lf', 'crlf', 'nofinal', 'unicode', 'exotic']
LAYOUTS_THOROUGH = LAYOUTS_QUICK + ['cr', 'crlf_nofinal']


# hand-shaped programs for request shapes the PF programs do not contain: the inlined
# definition is the LAST line of the file (with the `nofinal` layouts: the line without a
# newline disappears), and the definition and its uses are in different files
TINY = {
    'lastdef': {'main.py': 'def use_it():\n    return zlast_val + 1\n\n\nzlast_val = 3\n'},
    'xfile': {'main.py': 'import conf_mod\nprint(conf_mod.setting_val)\nother_val = conf_mod.setting_val + 1\n',
              'conf_mod.py': 'setting_val = 42\nunrelated_val = 1\n'},
    'xfile-from': {'main.py': 'from conf_mod import unrelated_val\nimport conf_mod\nprint(conf_mod.setting_val, unrelated_val)\n',
                   'conf_mod.py': 'unrelated_val = 1\nsetting_val = (4, 2)'},
}


def _init():
    boot.boot()
    boot.environment()


def layout(files, lay):
    out = {}
    for k, v in files.items():
        if lay == 'unicode':
            v = pf.unicode_names(v)
        if lay == 'exotic':
            # characters that str.splitlines() treats as line boundaries but parso/Python do not:
            # a form-feed page break line and a U+2028 inside a comment on every def/class line
            v = re.sub(r'(?m)^(def |class )', '\x0c\n\\1', v)
            v = re.sub(r'(?m)^(\s*)(RESULT = .*)$', '\\1\\2  # sep\u2028here', v)
        if lay in ('crlf', 'crlf_nofinal'):
            v = v.replace('\n', '\r\n')
        if lay == 'cr':
            v = v.replace('\n', '\r')
        if lay in ('nofinal', 'crlf_nofinal'):
            v = v.rstrip('\r\n')
        out[k] = v
    return out


def snap(root):
    out = {}
    for d, dirs, fs in os.walk(root):
        for f in fs:
            p = os.path.join(d, f)
            st = os.stat(p)
            with open(p, 'rb') as g:
                out[os.path.relpath(p, root)] = (g.read(), st.st_mtime_ns)
        for x in dirs:
            p = os.path.join(d, x)
            out[os.path.relpath(p, root) + '/'] = (b'', os.stat(p).st_mtime_ns)
    return out


def split_keep(text):
    import parso
    return parso.split_lines(text, keepends=True)


def parse_diff(diff):
    """-> (renames [(from,to)], files [(from,to,[hunks])]) ; hunk = (old_start, [(tag, line)])"""
    lines = split_keep(diff)
    renames, files = [], []
    i = 0
    cur = None
    pend = None
    while i < len(lines):
        ln = lines[i]
        if ln.startswith('rename from '):
            pend = ln[len('rename from '):].rstrip('\r\n')
        elif ln.startswith('rename to '):
            renames.append((pend, ln[len('rename to '):].rstrip('\r\n')))
        elif ln.startswith('--- ') and i + 1 < len(lines) and lines[i + 1].startswith('+++ '):
            cur = (ln[4:].rstrip('\r\n'), lines[i + 1][4:].rstrip('\r\n'), [])
            files.append(cur)
            i += 1
        elif ln.startswith('@@'):
            m = re.match(r'@@ -(\d+)(?:,(\d+))? \+(\d+)(?:,(\d+))? @@', ln)
            if not m or cur is None:
                raise ValueError('malformed hunk header %r' % ln)
            cur[2].append((int(m.group(1)), int(m.group(2) or 1), []))
        elif ln == '':
            pass
        else:
            if cur is None or not cur[2] or ln[0] not in ' -+':
                raise ValueError('unexpected diff line %r' % ln)
            cur[2][-1][2].append((ln[0], ln[1:]))
        i += 1
    return renames, files


def apply_hunks(old_text, hunks):
    old = split_keep(old_text)
    if old and old[-1] != '':
        old[-1] += '\n'          # documented in ChangedFile.get_diff: a final newline is added
    out = []
    pos = 0
    for start, count, body in hunks:
        start0 = start - 1 if count else start
        if start0 < pos:
            raise ValueError('overlapping hunks')
        out.extend(old[pos:start0])
        pos = start0
        for tag, line in body:
            if tag in ' -':
                if pos >= len(old) or old[pos] != line:
                    raise ValueError('context mismatch at old line %d: %r vs %r'
                                     % (pos + 1, old[pos] if pos < len(old) else None, line))
                pos += 1
                if tag == ' ':
                    out.append(line)
            else:
                out.append(line)
    out.extend(old[pos:])
    return ''.join(out)


def norm_final(text):
    ls = split_keep(text)
    if ls and ls[-1] != '':
        return text + '\n'
    return text


def preserved_outside(old, new, touched_lines):
    """Every old line not in touched_lines must occur, in order, byte for byte, in new."""
    ol, nl = split_keep(old), split_keep(new)
    j = 0
    for i, line in enumerate(ol, 1):
        if i in touched_lines or line == '':
            continue
        # a final line without terminator may legitimately stay final
        while j < len(nl) and nl[j] != line:
            j += 1
        if j >= len(nl):
            return i, line
        j += 1
    return None


def rename_text_ok(old, new, oldname, newname):
    """new == old with some whole-identifier occurrences of oldname replaced by newname."""
    i = j = 0
    while i < len(old) and j < len(new):
        if old[i] == new[j]:
            i += 1
            j += 1
            continue
        if old.startswith(oldname, i) and new.startswith(newname, j):
            i += len(oldname)
            j += len(newname)
            continue
        return False
    return i == len(old) and j == len(new)


def requests_for(files):
    """The refactoring requests of one program (positions in LF layout of main.py etc.)."""
    reqs = []
    bound, mods = c05.bound_names(files)
    seen = set()
    for rel, text in sorted(files.items()):
        if not rel.endswith('.py'):
            continue
        for (l, c, s) in c05.name_tokens(text):
            if (s in bound or s in mods) and s not in seen and not s.startswith('__'):
                seen.add(s)
                reqs.append({'m': 'rename', 'file': rel, 'line': l, 'col': c, 'name': s,
                             'touched': None})
    text = files['main.py']
    for rel, ftext in sorted(files.items(), key=lambda kv: (kv[0] != 'main.py', kv[0])):
        if not rel.endswith('.py'):
            continue
        try:
            cands = c06.single_assignments(ftext)
        except SyntaxError:
            continue
        for v in cands:
            reqs.append({'m': 'inline', 'file': rel, 'line': v['pos'][0], 'col': v['pos'][1],
                         'name': v['name'], 'touched': None})
    for sel in c06.expression_selections(text):
        for m in ('extract_variable', 'extract_function'):
            reqs.append({'m': m, 'file': 'main.py', 'line': sel['start'][0], 'col': sel['start'][1],
                         'until_line': sel['end'][0], 'until_col': sel['end'][1],
                         'touched': [sel['start'][0], sel['end'][0]]})
    return reqs


def check_program(src, chain, lay, gnu_patch=False):
    jedi = boot.boot()
    env = boot.environment()
    if src.startswith('tiny:'):
        pid = '%s/%s' % (src, lay)
        lf_files = dict(TINY[src[5:]])
    else:
        prog = pf.build(src, chain)
        pid = '%s/%s' % (prog.pid(), lay)
        lf_files = prog.render()
    files = layout(lf_files, lay)
    if lay in ('unicode', 'exotic'):
        lf_files = files
    base = os.path.join(boot.scratch_root(), 'c07', '%d_%s' % (os.getpid(), abs(hash(pid)) % 10 ** 8))
    shutil.rmtree(base, ignore_errors=True)
    os.makedirs(base)
    out = {'id': pid, 'fails': [], 'evals': 0, 'refused': 0, 'applied': 0, 'diffs': 0,
           'renames_applied': 0}

    def fail(site, inp, detail):
        detail['program'] = files
        out['fails'].append({'site': site, 'input': '%s|%s' % (pid, inp), 'detail': detail})

    try:
        reqs = requests_for(lf_files)
        # second pass over rename requests of package names: an EMPTY directory with the new name
        # already exists (Path.rename replaces it; an implementation that moves *into* it would
        # leave files at unannounced paths)
        pkg_dirs = {r.split('/')[0] for r in lf_files if '/' in r}
        reqs += [dict(r, predir=True) for r in reqs if r['m'] == 'rename' and r.get('name') in
                 {pf.unicode_names(d) if lay == 'unicode' else d for d in pkg_dirs}]
        for k, rq in enumerate(reqs):
            inp = '%s%s@%s:%d:%d%s' % (rq['m'], '+predir' if rq.get('predir') else '',
                                       rq['file'], rq['line'], rq['col'],
                                     '-%d:%d' % (rq['until_line'], rq['until_col'])
                                     if 'until_line' in rq else '')
            root = os.path.join(base, 'p%d' % k)
            os.makedirs(root)
            execute.write_tree(root, files)
            before = snap(root)
            project = jedi.Project(root)
            path = os.path.join(root, rq['file'])
            out['evals'] += 1
            try:
                script = jedi.Script(files[rq['file']], path=path, environment=env, project=project)
                if rq['m'] == 'rename':
                    ref = script.rename(rq['line'], rq['col'], new_name=FRESH)
                elif rq['m'] == 'inline':
                    ref = script.inline(rq['line'], rq['col'])
                else:
                    ref = getattr(script, rq['m'])(rq['line'], rq['col'], until_line=rq['until_line'],
                                                   until_column=rq['until_col'], new_name=FRESH)
                changed = {os.path.relpath(str(p), root): cf for p, cf in
                           ref.get_changed_files().items()}
                new_codes = {k2: cf.get_new_code() for k2, cf in changed.items()}
                renames = [(os.path.relpath(str(a), root), os.path.relpath(str(b), root))
                           for a, b in ref.get_renames()]
                diff = ref.get_diff()
                file_diffs = {k2: cf.get_diff() for k2, cf in changed.items()}
                repr(ref), [repr(cf) for cf in changed.values()]
            except jedi.RefactoringError:
                out['refused'] += 1
                if snap(root) != before:
                    fail('disk-changed-by-refused-request@%s' % rq['m'], inp, {})
                shutil.rmtree(root, ignore_errors=True)
                continue
            except Exception as e:
                fail(canon.exc_site(e), inp, {'tb': canon.short_tb(e)})
                shutil.rmtree(root, ignore_errors=True)
                continue
            mid = snap(root)
            if mid != before:
                fail('disk-changed-before-apply@%s' % rq['m'], inp,
                     {'changed_entries': sorted(k2 for k2 in set(mid) | set(before)
                                                if mid.get(k2) != before.get(k2))})
            # --- diff well-formed, names exactly the announced files, produces new code
            out['diffs'] += 1
            try:
                d_ren, d_files = parse_diff(diff)
                if sorted(d_ren) != sorted(renames):
                    fail('diff-renames-differ@%s' % rq['m'], inp,
                         {'diff': d_ren, 'get_renames': renames})
                from_names = sorted(f[0] for f in d_files)
                if from_names != sorted(changed):
                    fail('diff-files-differ@%s' % rq['m'], inp,
                         {'diff_headers': from_names, 'changed_files': sorted(changed)})
                if ''.join(file_diffs[k2] for k2 in sorted(file_diffs)) not in diff \
                        and len(file_diffs) == 1:
                    fail('file-diff-not-in-refactoring-diff@%s' % rq['m'], inp, {})
                for frm, to, hunks in d_files:
                    if frm not in changed:
                        continue
                    exp_to = frm
                    for a, b in renames:
                        if frm == a or frm.startswith(a + '/'):
                            exp_to = b + frm[len(a):]
                    if to != exp_to:
                        fail('diff-target-name-wrong@%s' % rq['m'], inp,
                             {'from': frm, 'to': to, 'expected': exp_to})
                    got = apply_hunks(files[frm], hunks)
                    if got != norm_final(new_codes[frm]):
                        fail('diff-does-not-produce-new-code@%s' % rq['m'], inp,
                             {'file': frm, 'applied': got, 'new_code': new_codes[frm],
                              'diff': diff})
            except ValueError as e:
                fail('diff-malformed@%s' % rq['m'], inp, {'error': str(e), 'diff': diff})
            if gnu_patch and lay in ('lf', 'crlf') and not renames and changed:
                pdir = os.path.join(base, 'patch%d' % k)
                os.makedirs(pdir)
                execute.write_tree(pdir, files)
                pr = subprocess.run(['patch', '--binary', '-p0', '-s'], input=diff.encode('utf-8'),
                                    cwd=pdir, capture_output=True)
                if pr.returncode != 0:
                    fail('gnu-patch-rejects-diff@%s' % rq['m'], inp,
                         {'stderr': pr.stdout.decode()[-300:] + pr.stderr.decode()[-300:],
                          'diff': diff})
                else:
                    for k2, code in new_codes.items():
                        with open(os.path.join(pdir, k2), 'rb') as f:
                            got = f.read().decode('utf-8')
                        if got != norm_final(code) and got != code:
                            fail('gnu-patch-result-differs@%s' % rq['m'], inp, {'file': k2})
                shutil.rmtree(pdir, ignore_errors=True)
            # --- text outside the rewritten nodes
            for k2, code in new_codes.items():
                old = files[k2]
                if rq['m'] == 'rename':
                    if not rename_text_ok(old, code, rq['name'] if lay != 'unicode' else
                                          pf.unicode_names(rq['name']), FRESH):
                        fail('text-outside-renamed-tokens-changed@rename', inp,
                             {'file': k2, 'old': old, 'new': code})
                else:
                    if rq['m'] == 'inline':
                        nm = rq['name'] if lay != 'unicode' else pf.unicode_names(rq['name'])
                        touched = {i for i, l in enumerate(split_keep(old), 1)
                                   if re.search(r'\b%s\b' % re.escape(nm), l)}
                    else:
                        touched = set(range(rq['touched'][0], rq['touched'][1] + 1))
                    bad = preserved_outside(old, code, touched)
                    if bad:
                        fail('line-outside-rewritten-node-changed@%s' % rq['m'], inp,
                             {'file': k2, 'old_line_no': bad[0], 'old_line': bad[1], 'new': code})
                # a missing final newline stays missing, an existing one stays - unless the last
                # line is the definition that inline removes: then the end of the file is the
                # rewritten node itself, not "text outside the rewritten nodes"
                old_ls = [l for l in split_keep(old) if l != '']
                last_rewritten = rq['m'] == 'inline' and rq['file'] == k2 \
                    and rq['line'] == len(old_ls)      # the removed definition is the last line
                if not last_rewritten and \
                        (split_keep(old)[-1] == '') != (split_keep(code)[-1] == ''):
                    fail('final-newline-state-changed@%s' % rq['m'], inp,
                         {'file': k2, 'old_tail': old[-20:], 'new_tail': code[-20:]})
            # --- apply
            try:
                if rq.get('predir'):
                    os.mkdir(os.path.join(root, FRESH))
                ref.apply()
            except Exception as e:
                fail(canon.exc_site(e) + '/apply', inp, {'tb': canon.short_tb(e)})
                shutil.rmtree(root, ignore_errors=True)
                continue
            out['applied'] += 1
            out['renames_applied'] += len(renames)
            after = {k2: v[0] for k2, v in snap(root).items() if not k2.endswith('/')}
            expect = {k2: v[0] for k2, v in before.items() if not k2.endswith('/')}
            for k2, code in new_codes.items():
                expect[k2] = code.encode('utf-8')
            for a, b in renames:
                for k2 in list(expect):
                    if k2 == a or k2.startswith(a + '/'):
                        expect[b + k2[len(a):]] = expect.pop(k2)
            if after != expect:
                fail('apply-result-differs-from-announcement@%s' % rq['m'], inp,
                     {'differing': sorted(k2 for k2 in set(after) | set(expect)
                                          if after.get(k2) != expect.get(k2)),
                      'renames': renames})
            shutil.rmtree(root, ignore_errors=True)
        return out
    finally:
        shutil.rmtree(base, ignore_errors=True)


def _work(task):
    return check_program(task['src'], task['chain'], task['lay'], task.get('gnu', False))


def _levels(tier):
    lays = LAYOUTS_QUICK if tier == 'quick' else LAYOUTS_THOROUGH
    multi = ['import_mod', 'from_import', 'pkg_relative', 'pkg_init_reexport', 'method_xmod']
    lv = []
    core = [c for c in pf.CARRIER_NAMES if c in pf.CORE]
    qprogs = [('inst', [c]) for c in core + [m for m in multi if m not in core]]
    qprogs += [('cls', ['from_import']), ('func', ['import_mod'])]
    # added after the first wave of seeded changes: package renames with a changed file inside the
    # renamed package and with a sibling whose path has the package path as a string prefix
    extra = [('inst', ['pkg_prefix_sibling']), ('inst', ['pkg_self_import']),
             ('inst', ['assign', 'pkg_prefix_sibling']), ('inst', ['conditional_reimport'])]
    if tier == 'quick':
        progs = qprogs + extra
    else:
        progs = list(pf.enumerate_programs(1, ['inst', 'cls', 'func']))
        progs += [('inst', [a, b]) for a in core for b in multi]
        progs += [p for p in extra if p not in progs]
    for lay in lays:
        # GNU patch as second applier: on the quick program set in the LF and CRLF layouts (its
        # rejections are an open known finding with an explicit input list, kept to that set)
        lv.append(('layout %s' % lay, [dict(src=s, chain=c, lay=lay,
                                            gnu=(lay in ('lf', 'crlf') and (s, c) in qprogs))
                                       for s, c in progs]
                   + [dict(src='tiny:' + t, chain=[], lay=lay) for t in sorted(TINY)]))
    return lv


def run(ctx):
    states = trans = refused = applied = diffs = ren = 0
    done = []
    samples = []
    exhaustive = True
    for name, tasks in _levels(ctx.tier):
        if ctx.time_left() < 10:
            exhaustive = False
            ctx.note('level %s not started (time cap)' % name)
            continue
        pres = pool.run(tasks, 'jv.props.c07:_work', init='jv.props.c07:_init', seed=ctx.seed,
                        deadline=ctx.deadline, tag='c07')
        ctx.absorb(pres, name)
        for i, t in enumerate(tasks):
            if i in pres.crashed:
                ctx.violation('WorkerDied(exit=%s)' % pres.crashed[i], str(t), {'task': t},
                              {'task': t})
                continue
            r = pres.results.get(i)
            if r is None:
                continue
            states += 1
            trans += r['evals']
            refused += r['refused']
            applied += r['applied']
            diffs += r['diffs']
            ren += r['renames_applied']
            for f in r['fails']:
                ctx.violation(f['site'], f['input'], f['detail'], {'task': t, 'input': f['input']})
        if pres.skipped:
            exhaustive = False
            ctx.note('level %s: %d of %d programs not explored (time cap)'
                     % (name, len(pres.skipped), len(tasks)))
        else:
            done.append('%s: %d programs' % (name, len(tasks)))
        samples.append({'level': name, 'program': pf.build(tasks[0]['src'], tasks[0]['chain']).pid()
                        if not tasks[0]['src'].startswith('tiny:') else tasks[0]['src']})
    ctx.coverage.update({
        'states': states, 'transitions': trans + applied, 'evaluations': trans,
        'refused_with_RefactoringError': refused, 'diffs_parsed_and_applied': diffs,
        'results_applied_to_disk': applied, 'file_renames_performed': ren,
        'distinct_nontrivial': applied,
        'rule': 'state = (program, layout); transition = one refactoring request inspected, and '
                'one apply(); distinct_nontrivial = requests that produced a refactoring which was '
                'inspected (diff parsed + applied by the own applier), applied to disk and compared',
        'levels_completed': done, 'exhaustive': exhaustive, 'samples': samples,
    })
    ctx.assumptions += [
        'configuration `stubs`',
        'get_diff() is compared modulo the final newline that ChangedFile.get_diff documents it adds',
        'text inserted by a refactoring is new text (its line endings are not judged); every old '
        'line outside the selected statement(s) must survive byte for byte',
    ]


def replay(case):
    _init()
    t = case['task']
    r = _work(t)
    return [(f['site'], f['input'], {k: v for k, v in f['detail'].items() if k != 'program'})
            for f in r['fails'] if 'input' not in case or f['input'] == case['input']]
