"""Instrumented execution of generated programs: CPython is the reference model (DESIGN §3.5).

`run_instrumented(files, main)` writes an instrumented copy of the program into a fresh
directory, runs it in this process with that directory first on sys.path, and returns for every
expression occurrence the run evaluated the set of observed values' descriptions.
"""
import ast
import builtins
import contextlib
import importlib
import io
import os
import sys
import types

HOOK = '_jvp_'          # never a dunder name: class bodies would mangle it


def char_col(line_text, byte_col):
    return len(line_text.encode('utf-8')[:byte_col].decode('utf-8', 'replace'))


class _Instr(ast.NodeTransformer):
    def __init__(self, relpath, lines, table):
        self.relpath = relpath
        self.lines = lines
        self.table = table

    def _wrap(self, node, kind):
        k = len(self.table)
        l0, c0 = node.lineno, char_col(self.lines[node.lineno - 1], node.col_offset)
        l1, c1 = node.end_lineno, char_col(self.lines[node.end_lineno - 1], node.end_col_offset)
        self.table.append({'file': self.relpath, 'kind': kind, 'start': (l0, c0), 'end': (l1, c1),
                           'text': ast.get_source_segment('\n'.join(self.lines), node)})
        call = ast.Call(func=ast.Name(id=HOOK, ctx=ast.Load()),
                        args=[ast.Constant(k), node], keywords=[])
        return ast.copy_location(call, node)

    def visit_Name(self, node):
        if isinstance(node.ctx, ast.Load) and node.id != HOOK:
            return self._wrap(node, 'name')
        return node

    def visit_Attribute(self, node):
        self.generic_visit(node)
        if isinstance(node.ctx, ast.Load):
            return self._wrap(node, 'attribute')
        return node

    def visit_Subscript(self, node):
        self.generic_visit(node)
        if isinstance(node.ctx, ast.Load):
            return self._wrap(node, 'subscript')
        return node

    def visit_Call(self, node):
        # zero-argument super() must stay a direct call of the name `super`
        if isinstance(node.func, ast.Name) and node.func.id == 'super' and not node.args:
            return node
        self.generic_visit(node)
        return self._wrap(node, 'call')

    def visit_Expr(self, node):
        # an expression statement's value is discarded: instrument inside it, not the value
        if isinstance(node.value, ast.Call):
            self.generic_visit(node.value)
            return node
        self.generic_visit(node)
        return node

    def visit_JoinedStr(self, node):
        return node

    def visit_AnnAssign(self, node):
        # do not instrument annotations
        if node.value is not None:
            node.value = self.visit(node.value)
        node.target = self.visit(node.target)
        return node

    def visit_arg(self, node):
        return node

    def visit_FunctionDef(self, node):
        node.body = [self.visit(b) for b in node.body]
        node.decorator_list = [self.visit(d) for d in node.decorator_list]
        node.args.defaults = [self.visit(d) for d in node.args.defaults]
        node.args.kw_defaults = [d if d is None else self.visit(d) for d in node.args.kw_defaults]
        return node

    visit_AsyncFunctionDef = visit_FunctionDef

    def visit_Global(self, node):
        return node

    visit_Nonlocal = visit_Global


def collect_defs(files):
    """(relpath, qualname) -> line of the class/def keyword, from the generated sources."""
    out = {}
    for rel, text in files.items():
        if not rel.endswith('.py'):
            continue
        tree = ast.parse(text)

        def walk(node, prefix, in_func):
            for ch in ast.iter_child_nodes(node):
                if isinstance(ch, (ast.ClassDef, ast.FunctionDef, ast.AsyncFunctionDef)):
                    q = prefix + ch.name
                    out[(rel, q)] = (ch.lineno, 'class' if isinstance(ch, ast.ClassDef)
                                     else 'function')
                    if isinstance(ch, ast.ClassDef):
                        walk(ch, q + '.', in_func)
                    else:
                        walk(ch, q + '.<locals>.', True)
                else:
                    walk(ch, prefix, in_func)
        walk(tree, '', False)
    return out


def modname(rel):
    m = rel[:-3].replace('/', '.')
    if m.endswith('.__init__'):
        m = m[:-9]
    return m


def describe(v, root_mods):
    """JSON description of a run-time value: what jedi should report for it."""
    t = type(v)
    if isinstance(v, type):
        return ('class', v.__name__, v.__module__, v.__qualname__)
    if isinstance(v, types.ModuleType):
        return ('module', v.__name__.rsplit('.', 1)[-1], v.__name__, '')
    if isinstance(v, types.MethodType):
        v = v.__func__
    if isinstance(v, types.FunctionType):
        # the code object, not __name__/__qualname__: functools.wraps copies those
        c = v.__code__
        w = v
        while isinstance(getattr(w, '__wrapped__', None), types.FunctionType):
            w = w.__wrapped__     # what functools.wraps says this function stands for
        wc = w.__code__
        return ('function', c.co_name, '@file:' + c.co_filename, c.co_qualname,
                ('function', wc.co_name, '@file:' + wc.co_filename, wc.co_qualname))
    return ('instance', t.__name__, t.__module__, t.__qualname__)


class RunResult:
    def __init__(self):
        self.table = []
        self.observed = {}     # probe index -> set of descriptions
        self.stdout = ''
        self.exc = None
        self.modules = {}      # module name -> relpath


def instrument(files):
    table = []
    out = {}
    for rel, text in sorted(files.items()):
        if not rel.endswith('.py'):
            out[rel] = text
            continue
        lines = text.split('\n')
        tree = ast.parse(text)
        tree = _Instr(rel, lines, table).visit(tree)
        ast.fix_missing_locations(tree)
        out[rel] = ast.unparse(tree) + '\n'
    return out, table


def write_tree(root, files):
    for rel, text in files.items():
        p = os.path.join(root, rel)
        os.makedirs(os.path.dirname(p), exist_ok=True)
        with open(p, 'w', encoding='utf-8', newline='') as f:
            f.write(text)


def run_program(root, main='main.py', hook=None, argv=None):
    """Execute root/main as __main__ in this process; returns (stdout, exception type name).
    sys.modules / sys.path are restored afterwards."""
    saved_path = list(sys.path)
    saved_mods = set(sys.modules)
    saved_main = sys.modules.get('__main__')
    sys.path.insert(0, root)
    importlib.invalidate_caches()
    if hook is not None:
        setattr(builtins, HOOK, hook)
    buf = io.StringIO()
    exc = None
    try:
        with open(os.path.join(root, main), encoding='utf-8') as f:
            src = f.read()
        code = compile(src, os.path.join(root, main), 'exec')
        mod = types.ModuleType('__main__')
        mod.__file__ = os.path.join(root, main)
        sys.modules['__main__'] = mod
        with contextlib.redirect_stdout(buf), contextlib.redirect_stderr(io.StringIO()):
            try:
                exec(code, mod.__dict__)
            except BaseException as e:      # the program's own failure is an observation
                if isinstance(e, KeyboardInterrupt):
                    raise
                exc = type(e).__name__
    finally:
        if saved_main is not None:
            sys.modules['__main__'] = saved_main
        for m in list(sys.modules):
            if m not in saved_mods:
                del sys.modules[m]
        sys.path[:] = saved_path
        if hook is not None and hasattr(builtins, HOOK):
            delattr(builtins, HOOK)
        importlib.invalidate_caches()
    return buf.getvalue(), exc


def run_instrumented(files, scratch_dir, main='main.py', observer=None):
    """-> RunResult.  `files` = {relpath: text} (un-instrumented)."""
    res = RunResult()
    inst, table = instrument(files)
    res.table = table
    write_tree(scratch_dir, inst)
    observed = res.observed
    root_mods = {modname(r) for r in files if r.endswith('.py')}

    def hook(k, v):
        try:
            observed.setdefault(k, set()).add(describe(v, root_mods))
            if observer is not None:
                observer(k, v)
        except Exception:
            pass
        return v
    res.stdout, res.exc = run_program(scratch_dir, main, hook)
    return res
