"""Process boot for every harness process (parent, pool worker, fresh-oracle child).

Makes jedi importable from /repo's *current working tree*, points it at the vendored
typeshed (configuration `stubs`, DESIGN §0), and redirects every piece of ambient state the
explorers own (cache directory, HOME) into the run's scratch directory.
"""
import os
import sys
import tempfile

REPO = os.environ.get('JV_REPO', '/repo')
VERIF = os.environ.get('JV_VERIF', os.path.dirname(os.path.dirname(os.path.dirname(
    os.path.abspath(__file__)))))
TYPESHED = os.path.join(VERIF, 'vendor', 'typeshed')

_booted = False
_env = None


def scratch_root():
    d = os.environ.get('JV_SCRATCH')
    if not d:
        d = tempfile.mkdtemp(prefix='jv-', dir=os.environ.get('VERIF_SCRATCH', '/var/tmp'))
        os.environ['JV_SCRATCH'] = d
    os.makedirs(d, exist_ok=True)
    return d


def boot(config='stubs', private_cache=True):
    """Import jedi from /repo and configure it.  Idempotent."""
    global _booted
    if _booted:
        import jedi
        return jedi
    if REPO not in sys.path:
        sys.path.insert(0, REPO)
    import jedi
    assert os.path.abspath(jedi.__file__).startswith(os.path.abspath(REPO) + os.sep), jedi.__file__
    from jedi import settings
    if config == 'stubs':
        from pathlib import Path
        from jedi.inference.gradual import typeshed
        typeshed.TYPESHED_PATH = Path(TYPESHED)
        typeshed._version_cache.clear()
    if private_cache:
        cd = os.path.join(scratch_root(), 'cache-%d' % os.getpid())
        os.makedirs(cd, exist_ok=True)
        settings.cache_directory = cd
    _booted = True
    return jedi


def environment():
    """A private Environment for this process (never the 10-minute cached default)."""
    global _env
    if _env is None:
        boot()
        from jedi.api.environment import SameEnvironment
        _env = SameEnvironment()
    return _env


def reset_environment():
    global _env
    _env = None


def prune_parser_cache():
    """Drop parso's in-memory cache entries for files under the run's scratch directory.

    Workers analyse thousands of generated files under fresh paths.  parso garbage-collects its
    in-memory cache once it holds >= 600 entries, judging age by `last_used`, which a freshly
    parsed module inherits from the *file's mtime*: typeshed stubs parsed a moment ago are then
    evicted while the running query still uses them, and jedi raises KeyError in
    parser_utils.get_parso_cache_node (seen after ~600 files per worker; recorded in DESIGN §7
    as a genuine long-lived-process defect of the parso/jedi cache contract).  Each generated
    program is an independent session, so its entries are simply dropped when it is done;
    the cache then never reaches the trigger and every check stays deterministic.
    """
    try:
        from parso.cache import parser_cache
    except Exception:
        return
    root = os.environ.get('JV_SCRATCH')
    if not root:
        return
    for m in parser_cache.values():
        for p in [p for p in m if p is not None and str(p).startswith(root)]:
            del m[p]
