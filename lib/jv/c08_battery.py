"""C08 battery: probe points of a text and the canonical answers of one Script (no addresses).

Used identically by the history workers (newest Script of the edited buffer) and by the fresh
oracle processes, so both sides are compared like with like.
"""
import re

from . import canon

IDENT = re.compile(r'[^\W\d]\w*')
KEYWORDS = frozenset('''False None True and as assert async await break class continue def del
elif else except finally for from global if import in is lambda nonlocal not or pass raise
return try while with yield'''.split())


def probe_points(text):
    """-> (identifiers [(line, col_start, col_end, word)], call slots [(line, col)],
    line ends [(line, col)]).  Pure text logic (regex over lines; strings/comments included on
    purpose: jedi must answer there, too)."""
    idents, slots, ends = [], [], []
    lines = text.split('\n')
    for li, s in enumerate(lines, 1):
        s = s.rstrip('\r')
        for m in IDENT.finditer(s):
            if m.group(0) not in KEYWORDS:
                idents.append((li, m.start(), m.end(), m.group(0)))
        depth = 0
        for c, ch in enumerate(s):
            if ch == '(':
                depth += 1
                slots.append((li, c + 1))
            elif ch == ',' and depth > 0:
                slots.append((li, c + 1))
            elif ch == ')':
                depth -= 1
        ends.append((li, len(s)))
    return idents, slots, ends


def _name(n, root):
    """Canonical identity + the text-bearing attributes (where staleness would surface)."""
    return [type(n).__name__, n.name, n.type, canon.relpath(n.module_path, root), n.line,
            n.column, n.full_name, n.description, n.get_line_code(),
            n.get_definition_start_position(), n.get_definition_end_position()]


def _names_sorted(res, root):
    return sorted((_name(n, root) for n in res), key=repr)


def _completion(c, root):
    """Names defined in the buffer carry their position; for names from other modules only the
    spelling and type are compared (which of a stub / its Python twin is shown for an imported
    name follows value-set order, i.e. the heap layout - C16's subject, not C08's)."""
    mp = c.module_path
    if mp is None or (root and str(mp).startswith(str(root))):
        return [c.name, c.complete, c.type, canon.relpath(mp, root), c.line, c.column]
    return [c.name, c.complete, c.type, '<other module>']


def _sigs(lst):
    return sorted((_sig(s) for s in lst), key=repr)


def _sig(s):
    return [s.name, s.index, list(s.bracket_start), s.to_string(),
            [[p.name, str(p.kind), p.to_string()] for p in s.params]]


def _call(fn):
    try:
        return fn()
    except BaseException as e:
        if isinstance(e, (KeyboardInterrupt, SystemExit, MemoryError)):
            raise
        return {'exc': canon.exc_site(e), 'tb': canon.short_tb(e, 4)}


def answers(script, text, root, refs=True):
    """-> (dict query-key -> canonical JSON answer, number of query evaluations).
    Only `script` (the newest Script of its path) is touched."""
    idents, slots, ends = probe_points(text)
    lines = text.split('\n')
    out = {}
    n = 0

    def put(key, fn):
        nonlocal n
        n += 1
        out[key] = _call(fn)

    put('get_names', lambda: [_name(x, root) + [x.is_definition()] for x in script.get_names(
        all_scopes=True, definitions=True, references=True)])
    defs = set()
    gn = out['get_names']
    if isinstance(gn, list):
        for x in gn:
            if x[-1] and x[3] != '<typeshed>':
                defs.add((x[4], x[5]))
    for (li, c0, c1, word) in idents:
        col = c0 + 1 if c1 - c0 > 1 else c0
        k = '%d:%d' % (li, col)
        put('infer@' + k, lambda: _names_sorted(script.infer(li, col), root))
        put('goto@' + k, lambda: _names_sorted(script.goto(li, col), root))
        put('help@' + k, lambda: [x[:8] + [d] for x, d in sorted(
            ((_name(h, root), h.docstring(raw=True)[:200]) for h in script.help(li, col)), key=repr)])
        if c0 > 0 and lines[li - 1][c0 - 1] == '.':
            # attribute access: what the object offers (asked right after the dot)
            put('complete@%d:%d' % (li, c0),
                lambda: [_completion(x, root) for x in script.complete(li, c0)])
        if refs and (li, c0) in defs:
            put('refs@' + k, lambda: _names_sorted(script.get_references(li, col), root))
    for (li, col) in slots:
        put('sig@%d:%d' % (li, col), lambda: _sigs(script.get_signatures(li, col)))
    for (li, col) in ends:
        put('ctx@%d:%d' % (li, col), lambda: _name(script.get_context(li, col), root))
        put('complete@%d:%d' % (li, col),
            lambda: [_completion(x, root) for x in script.complete(li, col)])
        put('sig@%d:%d' % (li, col), lambda: _sigs(script.get_signatures(li, col)))
    return out, n


def cursor_answers(script, text, root):
    """What an editor asks while typing: completion and signature at the very end of the text."""
    lines = text.split('\n')
    li, col = len(lines), len(lines[-1])
    out = {}
    out['complete@%d:%d' % (li, col)] = _call(
        lambda: [_completion(x, root) for x in script.complete(li, col)])
    out['sig@%d:%d' % (li, col)] = _call(
        lambda: _sigs(script.get_signatures(li, col)))
    return out, 2


def tree_dump(node):
    """Structural dump of a parso tree: types, positions, leaf values and prefixes."""
    out = []
    stack = [node]
    while stack:
        nd = stack.pop()
        ch = getattr(nd, 'children', None)
        if ch is None:
            out.append((nd.type, nd.start_pos, nd.end_pos, nd.value, nd.prefix))
        else:
            out.append((nd.type, nd.start_pos, nd.end_pos, len(ch)))
            stack.extend(reversed(ch))
    return out


def tree_links_ok(node):
    """Every child's parent pointer points to the node that lists it."""
    stack = [node]
    while stack:
        nd = stack.pop()
        for c in getattr(nd, 'children', ()):
            if c.parent is not nd:
                return False
            stack.append(c)
    return True
