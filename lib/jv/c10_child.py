"""C10 oracle: runs inside a clean child interpreter (`python -I -S -B c10_child.py`).

Reads one JSON document on stdin, writes one on stdout.  For every tree it answers, with the
real import system and sys.path = the tree's roots + the stdlib:

* name checks: which file (or namespace directory set) each candidate dotted name imports to;
* programs: the issuing module's source is replaced *in the loader* (the file on disk is not
  touched) by `try: <import statement> except BaseException as e: _jv_exc = e`, the module is
  imported by its dotted name (or exec'd as __main__ for the script outside sys.path) and the
  objects bound / the modules selected are described by file.  Every program is run under four
  import orders, starting from a state where no module of the tree is in sys.modules:
    A  nothing of the tree imported before;
    B  every other importable dotted name of the tree imported before;
    C  like A, then every importable dotted name of the tree is imported and the statement is
       executed a second time in the finished module (what a function-level import or a
       reload would see: the module itself and all others are complete attributes of their
       packages);
    D  like C, but before the statement is executed again the import system's side effect
       "the package gets its imported submodule as an attribute" is undone for every module
       of the tree (each package has again exactly what its own code bound).
  The parent only holds jedi to one answer when A, B, C and D agree (otherwise the answer
  depends on import-order side effects and any of them is accepted).

Nothing here imports jedi or the harness; only the standard library is used.
"""
import importlib
import importlib.machinery
import importlib.util
import json
import sys
import types

STD_PATH = list(sys.path)
MISSING = object()
_override = {}


def _patched_get_data(self, path, _orig=importlib.machinery.SourceFileLoader.get_data):
    src = _override.get(path)
    if src is not None:
        return src.encode('utf-8')
    return _orig(self, path)


importlib.machinery.SourceFileLoader.get_data = _patched_get_data
_CODE = {}


def _compile(data, path):
    """compile() memoised on (source, file name): same text, same file -> same code object"""
    key = (bytes(data) if not isinstance(data, str) else data, path)
    code = _CODE.get(key)
    if code is None:
        code = _CODE[key] = compile(data, path, 'exec', dont_inherit=True)
    return code


def _patched_source_to_code(self, data, path, *, _optimize=-1):
    return _compile(data, path)


importlib.machinery.SourceFileLoader.source_to_code = _patched_source_to_code
sys.dont_write_bytecode = True
BASE_MODULES = None


_ORIG = {}     # package name -> its namespace right after its own code ran


def _patched_exec_module(self, module, _orig=importlib.machinery.SourceFileLoader.exec_module):
    _orig(self, module)
    _ORIG[module.__name__] = dict(module.__dict__)


importlib.machinery.SourceFileLoader.exec_module = _patched_exec_module


def reset(roots, new_tree=False):
    for k in list(sys.modules):
        if k not in BASE_MODULES:
            del sys.modules[k]
    _ORIG.clear()
    sys.path[:] = list(roots) + STD_PATH
    if new_tree:
        # the tree is static while it is examined: finder caches stay valid within a tree
        sys.path_importer_cache.clear()
        importlib.invalidate_caches()


def strip_submodule_attributes():
    """Undo the import system's side effect `setattr(package, 'sub', <module package.sub>)`
    for every imported module of the tree: the package gets back what its own code had bound
    under that name (or nothing)."""
    for name, mod in list(sys.modules.items()):
        if name in BASE_MODULES or '.' not in name:
            continue
        parent, _, child = name.rpartition('.')
        pm = sys.modules.get(parent)
        if pm is not None and pm.__dict__.get(child) is mod:
            orig = _ORIG.get(parent, {})
            if child in orig and orig[child] is not mod:
                pm.__dict__[child] = orig[child]
            else:
                del pm.__dict__[child]


def desc(obj):
    if obj is MISSING:
        return ['none']
    if isinstance(obj, types.ModuleType):
        f = getattr(obj, '__file__', None)
        if f:
            return ['module', f]
        p = getattr(obj, '__path__', None)
        if p is not None:
            return ['namespace', sorted(set(p))]
        return ['other', 'module-without-file']
    if isinstance(obj, type):
        m = sys.modules.get(obj.__module__)
        return ['class', getattr(m, '__file__', None) or obj.__module__]
    return ['other', type(obj).__name__]


def import_desc(name):
    try:
        return desc(importlib.import_module(name))
    except ModuleNotFoundError:
        return ['none']
    except BaseException as e:
        return ['error', type(e).__name__]


def _import_all(names, modname=None, skip_own=False):
    for n in names:
        if skip_own and modname is not None and (n == modname or n.startswith(modname + '.')):
            continue
        try:
            importlib.import_module(n)
        except BaseException:
            pass


def _first_execution(prog, modname):
    """Import the issuing module (statement runs as its body) -> (namespace, package)."""
    src = prog['src']
    if modname is None:
        ns = {'__name__': '__main__', '__file__': prog['file'], '__package__': None,
              '__spec__': None, '__builtins__': __builtins__}
        exec(_compile(src, prog['file']), ns)
        return ns, None
    _override[prog['file']] = src
    try:
        mod = importlib.import_module(modname)
    finally:
        _override.clear()
    if getattr(mod, '__file__', None) != prog['file']:
        raise RuntimeError('enclosing module %s is %r' % (modname, getattr(mod, '__file__', None)))
    return mod.__dict__, mod.__package__


def _again(prog, ns):
    """The same statement executed once more in the finished module."""
    for k in [k for k in ns if not (k.startswith('__') and k.endswith('__'))]:
        del ns[k]
    exec(_compile(prog['src'], prog['file']), ns)


def _record(prog, ns, package):
    exc = ns.get('_jv_exc')
    out = []
    for pr in prog['probes']:
        if pr[0] == 'bind':
            out.append(desc(ns.get(pr[1], MISSING)) if exc is None else ['none'])
        else:
            level, dotted = pr[1], pr[2]
            try:
                if level:
                    if not package:
                        raise ImportError('no package')
                    name = importlib.util.resolve_name('.' * level + dotted, package)
                else:
                    name = dotted
            except ImportError:
                out.append(['beyond'])
                continue
            out.append(import_desc(name))
    return {'exc': None if exc is None else type(exc).__name__,
            'msg': None if exc is None else str(exc)[:200], 'probes': out}


def run_program(prog, modname, roots, pre):
    """-> {'A':..., 'B':..., 'C':..., 'D':...} (see module docstring)"""
    r = {}
    reset(roots)
    ns, package = _first_execution(prog, modname)
    r['A'] = _record(prog, ns, package)
    _import_all(pre)
    _again(prog, ns)
    r['C'] = _record(prog, ns, package)
    strip_submodule_attributes()
    _again(prog, ns)
    r['D'] = _record(prog, ns, package)
    reset(roots)
    _import_all(pre, modname, skip_own=True)
    ns, package = _first_execution(prog, modname)
    r['B'] = _record(prog, ns, package)
    for c in 'BCD':     # compact output: conditions that agree with A are left out
        if r[c] == r['A']:
            del r[c]
    return r


def do_tree(tree):
    roots = tree['sys_path']
    res = {'names': {}, 'programs': {}}
    reset(roots, new_tree=True)
    # 1. name checks, each from a fresh state
    for name in tree['names']:
        reset(roots)
        res['names'][name] = import_desc(name)
    valid = {}
    for f, cands in tree['file_names']:
        valid[f] = [n for n in cands if res['names'].get(n) == ['module', f]]
    res['valid'] = valid
    pre = [n for n in tree['preimport'] if res['names'].get(n, ['none'])[0] in ('module', 'namespace')]
    for prog in tree['programs']:
        if prog['main']:
            modnames = [None]
        else:
            modnames = valid.get(prog['file'], [])
        per = {}
        for mn in modnames:
            try:
                r = run_program(prog, mn, roots, pre)
            except BaseException:
                import traceback
                r = {c: {'harness': traceback.format_exc()[-800:]} for c in 'ABCD'}
            per[mn or '__main__'] = r
        res['programs'][prog['pid']] = per
    reset([], new_tree=True)
    _CODE.clear()
    return res


def main():
    global BASE_MODULES
    doc = json.load(sys.stdin)
    # make sure everything the oracle itself needs is imported before the snapshot
    import traceback  # noqa
    BASE_MODULES = set(sys.modules)
    reset([])
    clean = {n: import_desc(n) for n in doc.get('pool', [])}
    out = {'pool_clean': clean, 'trees': {}}
    for tree in doc['trees']:
        out['trees'][tree['tid']] = do_tree(tree)
    json.dump(out, sys.stdout)


if __name__ == '__main__':
    main()
