"""C11 helpers: the enumerated space (parameter lists, carriers, call texts) and the reference
model (CPython: the definition is executed, `inspect.signature` / `Signature.bind_partial` /
`compile` / `inspect.getdoc` answer every question).  Nothing in here imports jedi.
"""
import inspect
import itertools
import re
from inspect import Parameter

KINDS = ('po', 'pk', 'va', 'ko', 'vk')
_ORDER = {k: i for i, k in enumerate(KINDS)}
KIND_OF = {'po': Parameter.POSITIONAL_ONLY, 'pk': Parameter.POSITIONAL_OR_KEYWORD,
           'va': Parameter.VAR_POSITIONAL, 'ko': Parameter.KEYWORD_ONLY,
           'vk': Parameter.VAR_KEYWORD}
# names by position; they share prefixes on purpose (fragment matching) and never start with __
NAMES = ('ab', 'abd', 'c', 'xe', 'g5', 'h6')
UNKNOWN = 'zz'            # a keyword name that is no parameter
UNKNOWN_IDENT = 'q'       # an identifier that is no prefix of any parameter
FRESH = '_yy'             # oracle only: a keyword name that no call text and no parameter uses
DEFAULTS = ('1', "'s'", 'None', '(1, 2)', '2', '3')
ANNOTS = ('int', 'str', 'bytes', 'float', 'bool', 'list')


# ------------------------------------------------------------------ parameter lists

def skeletons(n):
    """Every legal kind sequence of exactly n parameters (po* pk* va? ko* vk?)."""
    for t in itertools.product(KINDS, repeat=n):
        if any(_ORDER[a] > _ORDER[b] for a, b in zip(t, t[1:])):
            continue
        if t.count('va') > 1 or t.count('vk') > 1:
            continue
        yield t


def decorations(sk):
    """Every legal (has_default, has_annotation) assignment for a kind sequence."""
    opts = []
    for k in sk:
        opts.append([(0, 0), (0, 1)] if k in ('va', 'vk') else [(0, 0), (0, 1), (1, 0), (1, 1)])
    for dec in itertools.product(*opts):
        seen = False
        ok = True
        for k, (d, _a) in zip(sk, dec):
            if k in ('po', 'pk'):
                if d:
                    seen = True
                elif seen:
                    ok = False
        if ok:
            yield dec


def make_plist(sk, dec=None):
    dec = dec or [(0, 0)] * len(sk)
    return [[k, NAMES[i], int(d), int(a)] for i, (k, (d, a)) in enumerate(zip(sk, dec))]


def full_decoration(sk):
    """Annotation everywhere, default wherever it is legal."""
    return [(0 if k in ('va', 'vk') else 1, 1) for k in sk]


# string literals whose *inside* holds white space that must survive rendering: a run of blanks,
# a literal tab, a line break (triple quotes), only blanks, blanks after punctuation.  Used as
# default values and as (string) annotations: code 2+j in a plist's default/annotation field.
WS_LITERALS = ("'a  b'", "'\t'", "'''x\ny'''", "'    '", "',  '")


def _code_tag(mark, v):
    return '' if not v else mark if v == 1 else '%sw%d' % (mark, v - 2)


def plist_id(pl):
    return ','.join(k + _code_tag('=', d) + _code_tag(':', a) for k, _n, d, a in pl) or '-'


def ws_decoration(sk, j):
    """Every parameter annotated with / defaulting to a white-space literal (rotating with the
    position, starting at literal j)."""
    n = len(WS_LITERALS)
    return [(0 if k in ('va', 'vk') else 2 + (i + j) % n, 2 + (i + j + 1) % n)
            for i, k in enumerate(sk)]


def render_params(pl):
    out = []
    kinds = [p[0] for p in pl]
    last_po = max([i for i, k in enumerate(kinds) if k == 'po'], default=None)
    need_star = 'ko' in kinds and 'va' not in kinds
    for i, (k, n, d, a) in enumerate(pl):
        if k == 'ko' and need_star:
            out.append('*')
            need_star = False
        s = {'va': '*', 'vk': '**'}.get(k, '') + n
        if a:
            s += ': ' + (ANNOTS[i] if a == 1 else WS_LITERALS[a - 2])
        if d:
            s += (' = ' if a else '=') + (DEFAULTS[i] if d == 1 else WS_LITERALS[d - 2])
        out.append(s)
        if i == last_po:
            out.append('/')
    return ', '.join(out)


def ret_annotation(pl):
    return ' -> int' if any(p[3] for p in pl) else ''


# ------------------------------------------------------------------ docstring layouts

DOCS = {
    'none': None,
    'one': '"""One line of {t}."""',
    'sq': "'single quoted {t}'",
    'tsq': "'''triple single {t}'''",
    'multi': '"""First line of {t}.\n\n{i}    Indented more.\n{i}Back.\n{i}"""',
    'lead': '"""\n{i}lead {t}\n{i}  deeper\n{i}"""',
    'raw': 'r"""raw \\n {t}"""',
    'esc': '"""tab\\there {t}"""',
    'cont': "'''x {t}\\\n{i}cont'''",
    'fstr': 'f"no docstring {t}"',
    'concat': '"impl {t}" " concat"',
}
DOC_KEYS = list(DOCS)


def _doc(key, tag, indent):
    tpl = DOCS[key]
    if tpl is None:
        return ''
    return indent + tpl.format(t=tag, i=indent) + '\n'


# ------------------------------------------------------------------ carriers

CARRIERS = ('fn', 'meth', 'umeth', 'cm', 'sm', 'init', 'wraps', 'pw', 'xw')


def carrier_applicable(carrier, pl):
    if carrier == 'xw':
        # `def w(x, *args, **kwargs)` in front of positional-only parameters has no legal
        # Python signature (a positional-or-keyword parameter before a positional-only one)
        return not any(p[0] == 'po' for p in pl)
    return True


def build_program(carrier, pl, doc='one'):
    """-> dict(code, callee, ref, name, doc_ref): `code` is the definition text (complete
    lines), `callee` the expression in front of the call parenthesis, `ref` the expression
    whose value (after executing `code`) is the called object."""
    P = render_params(pl)
    R = ret_annotation(pl)

    def sep(first):
        return first + (', ' if P else '') + P if first else P

    if carrier == 'fn':
        code = 'def f(%s)%s:\n%s    pass\n' % (P, R, _doc(doc, 'f', '    '))
        return dict(code=code, callee='f', ref='f', name='f', doc_ref='f')
    if carrier in ('meth', 'umeth', 'cm', 'sm'):
        deco = {'cm': '    @classmethod\n', 'sm': '    @staticmethod\n'}.get(carrier, '')
        first = {'cm': 'cls', 'sm': ''}.get(carrier, 'self')
        code = ('class C:\n    "doc of class C"\n%s    def m(%s)%s:\n%s        pass\n'
                '    def other(self):\n        "doc of other"\nc = C()\n'
                % (deco, sep(first), R, _doc(doc, 'm', '        ')))
        callee = 'c.m' if carrier == 'meth' else 'C.m'
        return dict(code=code, callee=callee, ref=callee, name='m', doc_ref=callee)
    if carrier == 'init':
        code = ('class C:\n%s    def __init__(%s):\n        "doc of init"\n        pass\n'
                % (_doc(doc, 'C', '    '), sep('self')))
        return dict(code=code, callee='C', ref='C', name='C', doc_ref='C')
    if carrier == 'wraps':
        code = ('import functools\n'
                'def deco(fn):\n'
                '    @functools.wraps(fn)\n'
                '    def wrapper(*args, **kwargs):\n'
                '        return fn(*args, **kwargs)\n'
                '    return wrapper\n'
                '@deco\n'
                'def f(%s)%s:\n%s    pass\n' % (P, R, _doc(doc, 'f', '    ')))
        return dict(code=code, callee='f', ref='f', name='f', doc_ref='f')
    if carrier in ('pw', 'xw'):
        first = 'x, ' if carrier == 'xw' else ''
        code = ('def g(%s)%s:\n    "doc of g"\n    pass\n'
                'def w(%s*args, **kwargs):\n%s    return g(*args, **kwargs)\n'
                % (P, R, first, _doc(doc, 'w', '    ')))
        return dict(code=code, callee='w', ref='w', name='w', doc_ref='w',
                    wrapped='g', extra_first=('x' if carrier == 'xw' else None))
    raise ValueError(carrier)


_DECO = ('import functools\n'
         'def deco(fn):\n'
         '    @functools.wraps(fn)\n'
         '    def wrapper(*args, **kwargs):\n'
         '        return fn(*args, **kwargs)\n'
         '    return wrapper\n')
# callable kind -> [(member id, callee text, bound?)]: every access Python offers
KIND_MEMBERS = (
    ('meth.bound', 'c.m'), ('meth.unbound', 'C.m'),
    ('cm.class', 'C.k'), ('cm.instance', 'c.k'),
    ('sm.class', 'C.s'), ('sm.instance', 'c.s'),
    ('call.bound', 'c'), ('call.attr', 'c.__call__'), ('call.unbound', 'C.__call__'),
    ('init.bound', 'D'), ('init.unbound', 'D.__init__'),
)


def build_kind_family(pl, decorated):
    """One module defining the parameter list as method, classmethod, staticmethod, __call__ and
    __init__, each optionally behind a functools.wraps-style `(*args, **kwargs)` decorator.
    -> (code, members); a member's callee expression is also the expression of the called
    object for inspect.signature."""
    P = render_params(pl)
    R = ret_annotation(pl)
    d = '    @deco\n' if decorated else ''

    def sep(first):
        return first + (', ' if P else '') + P if first else P

    code = (_DECO if decorated else '') + (
        'class C:\n    "doc of class C"\n'
        + d + '    def m(%s)%s:\n        "doc of m"\n' % (sep('self'), R)
        + '    @classmethod\n' + d + '    def k(%s)%s:\n        "doc of k"\n' % (sep('cls'), R)
        + '    @staticmethod\n' + d + '    def s(%s)%s:\n        "doc of s"\n' % (P, R)
        + d + '    def __call__(%s)%s:\n        "doc of call"\n' % (sep('self'), R)
        + 'class D:\n    "doc of class D"\n'
        + d + '    def __init__(%s):\n        "doc of init"\n' % sep('self')
        + 'c = C()\n')
    return code, KIND_MEMBERS


class Reference:
    """CPython's view of the program: executed once."""

    def __init__(self, prog):
        self.ns = {}
        exec(compile(prog['code'], '<c11-definition>', 'exec'), self.ns)
        self.obj = eval(prog['ref'], self.ns)
        if 'wrapped' in prog:
            # pure pass-through wrapper: the wrapped callable's parameters (validated against
            # execution of the wrapper by call_shape_check)
            inner = inspect.signature(self.ns[prog['wrapped']])
            params = list(inner.parameters.values())
            if prog['extra_first']:
                params = [Parameter(prog['extra_first'], Parameter.POSITIONAL_OR_KEYWORD)] + params
            self.sig = inspect.Signature(params, return_annotation=inspect.Signature.empty)
            self.has_return = False
        else:
            self.sig = inspect.signature(self.obj)
            self.has_return = True
        doc_obj = eval(prog['doc_ref'], self.ns)
        self.doc = inspect.getdoc(doc_obj) or ''
        # the definition as written (self/cls kept) — second legal signature line of docstring()
        fn = doc_obj
        fn = getattr(fn, '__func__', fn)
        if inspect.isclass(fn):
            fn = fn.__dict__.get('__init__', fn)
        try:
            self.unbound_sig = inspect.signature(fn, follow_wrapped=True)
        except (TypeError, ValueError):
            self.unbound_sig = None


def describe(sig, with_return=True):
    """JSON description of an inspect.Signature: names, kinds, default and annotation values."""
    E = Parameter.empty
    out = [[p.name, p.kind.name,
            None if p.default is E else '%s:%r' % (type(p.default).__name__, p.default),
            None if p.annotation is E else repr(p.annotation)]
           for p in sig.parameters.values()]
    ret = None
    if with_return and sig.return_annotation is not inspect.Signature.empty:
        ret = repr(sig.return_annotation)
    return {'params': out, 'return': ret}


def reparse(to_string):
    """`def <to_string>: pass` executed -> inspect.Signature (raises if it is no definition)."""
    ns = {}
    m = re.match(r'\s*([A-Za-z_]\w*)\s*\(', to_string)
    if not m:
        raise SyntaxError('no name( in %r' % to_string)
    exec(compile('def %s: pass\n' % to_string, '<c11-to_string>', 'exec'), ns)
    return inspect.signature(ns[m.group(1)])


def call_shapes(names, max_args=4, max_pos=4):
    """Every (positional count, keyword subset) with at most max_args arguments."""
    for npos in range(0, max_pos + 1):
        for r in range(0, max_args - npos + 1):
            for kws in itertools.combinations(names, r):
                yield npos, kws


def runs(obj, npos, kws):
    try:
        obj(*([0] * npos), **{k: 0 for k in kws})
    except TypeError:
        return False
    return True


def py_bind(sig, pos, kw, partial=False):
    """Signature.bind/bind_partial with CPython's *call* semantics for one corner where
    inspect of 3.12 differs from the interpreter (gh-87106): a keyword that names a
    positional-only parameter goes to **kwargs when there is one.  (call_shape checks compare
    this with real execution on every definition.)"""
    params = sig.parameters
    if kw and any(p.kind is Parameter.VAR_KEYWORD for p in params.values()):
        kw = {('\x00' + k if k in params and params[k].kind is Parameter.POSITIONAL_ONLY else k): v
              for k, v in kw.items()}
    return (sig.bind_partial if partial else sig.bind)(*pos, **kw)


def binds(sig, npos, kws):
    try:
        py_bind(sig, [0] * npos, {k: 0 for k in kws})
    except TypeError:
        return False
    return True


# ------------------------------------------------------------------ call texts

def arg_alphabet(names, tier):
    """Argument forms: (form id, text, [(offset, slot class, data)]) — `offset` = cursor
    position inside the text, slot class as DESIGN §4 C11 (s1 literal, s2 after `name=`,
    s3 empty slot, s4 inside an identifier) plus s5 (`*`, `*t`) and s6 (`**`, `**d`)."""
    forms = [('lit', '1', [(0, 's3', None), (1, 's1', None)], ('p',))]
    if tier == 'thorough':
        forms.append(('tup', '(3,)', [(0, 's3', None), (4, 's1', None)], ('p',)))
    for n in list(names) + [UNKNOWN]:
        probes = [(0, 's3', None)] + [(i, 's4', n[:i]) for i in range(1, len(n) + 1)]
        probes += [(len(n) + 1, 's2', n), (len(n) + 2, 's2', n)]
        forms.append(('kw:' + n, n + '=v', probes, ('k', n)))
    forms.append(('star', '*t', [(0, 's3', None), (1, 's5', None), (2, 's5', None)], ('s',)))
    forms.append(('dstar', '**d', [(0, 's3', None), (2, 's6', None), (3, 's6', None)], ('d',)))
    # an identifier that is no parameter but *extends* the first parameter name: the part before
    # the cursor is what counts (`f(ab|q`), the whole token when the cursor stands behind it
    ident = (names[0] if names else '') + UNKNOWN_IDENT
    forms.append(('id', ident, [(0, 's3', None)] + [(i, 's4', ident[:i])
                                                    for i in range(1, len(ident) + 1)], ('p',)))
    return forms


def call_texts(forms, max_args):
    """Every call of <= max_args arguments; yields (args text, [probe], number of arguments)
    where a probe is (offset in args text, pre (tuple of argument descriptors before the
    slot), cur)."""
    yield '', [(0, (), ('s3',))], 0
    for k in range(1, max_args + 1):
        for seq in itertools.product(forms, repeat=k):
            for trailing in ((False, True) if k == max_args else (False,)):
                text = ''
                probes = []
                pre = ()
                for j, (_fid, t, fprobes, desc) in enumerate(seq):
                    if j:
                        text += ','
                        probes.append((len(text), pre, ('s3',)))    # right after the comma
                        text += ' '
                    base = len(text)
                    for off, cls, data in fprobes:
                        probes.append((base + off, pre, (cls,) if data is None else (cls, data)))
                    text += t
                    pre = pre + (desc,)
                if trailing:
                    text += ','
                    probes.append((len(text), pre, ('s3',)))
                    text += ' '
                    probes.append((len(text), pre, ('s3',)))
                    probes = probes[-2:]     # the other slots are probed by the plain text
                yield text, probes, k


# ------------------------------------------------------------------ index oracle

_compile_memo = {}


def _compiles(args):
    key = tuple(args)
    r = _compile_memo.get(key)
    if r is None:
        src = '_f_(%s)' % ', '.join(args)
        try:
            compile(src, '<c11-call>', 'eval')
            r = True
        except SyntaxError:
            r = False
        _compile_memo[key] = r
    return r


def _render(desc):
    if desc[0] == 'p':
        return '1'
    if desc[0] == 'k':
        return desc[1] + '=1'
    return '*t' if desc[0] == 's' else '**d'


class IndexOracle:
    """Which parameter Python binds the argument being typed to — by asking
    `inspect.Signature.bind_partial` where a marker object lands, for every way the slot can
    still be completed and every number of values an earlier `*t` / `**d` may contribute."""

    def __init__(self, sig):
        self.sig = sig
        self.params = list(sig.parameters.values())
        self.names = [p.name for p in self.params]
        self.kw_index = next((i for i, p in enumerate(self.params)
                              if p.kind is Parameter.VAR_KEYWORD), None)
        self._memo = {}

    def _landing(self, pos, kw, mark):
        try:
            ba = py_bind(self.sig, pos, kw, partial=True)
        except TypeError:
            return None
        for i, p in enumerate(self.params):
            if p.name not in ba.arguments:
                continue
            v = ba.arguments[p.name]
            if v is mark:
                return i
            if p.kind is Parameter.VAR_POSITIONAL and any(x is mark for x in v):
                return i
            if p.kind is Parameter.VAR_KEYWORD and any(x is mark for x in v.values()):
                return i
        return None

    def _instantiations(self, pre):
        npos = sum(1 for a in pre if a[0] == 'p')
        kws = tuple(a[1] for a in pre if a[0] == 'k')
        stars = range(0, len(self.params) + 2) if any(a[0] == 's' for a in pre) else (0,)
        if any(a[0] == 'd' for a in pre):
            pool = [n for n in self.names + [UNKNOWN] if n not in kws]
            subsets = [c for r in range(len(pool) + 1) for c in itertools.combinations(pool, r)]
        else:
            subsets = [()]
        for m in stars:
            for extra in subsets:
                yield npos + m, kws + extra

    def allowed(self, pre, cur):
        """-> (status, set of admissible index values or None)."""
        key = (pre, cur)
        if key not in self._memo:
            self._memo[key] = self._allowed(pre, cur)
        return self._memo[key]

    def _allowed(self, pre, cur):
        pre_txt = [_render(a) for a in pre]
        if not _compiles(pre_txt):
            return 'pre-illegal', None
        cls = cur[0]
        if cls in ('s1', 's5'):
            cands = [None]
        elif cls == 's2':
            cands = [cur[1]]
        elif cls == 's3':
            cands = [None] + self.names + [FRESH]
        elif cls == 's4':
            frag = cur[1]
            cands = [None] + [n for n in self.names if n.startswith(frag)] + [frag + FRESH]
        elif cls == 's6':
            cands = self.names + [FRESH]
        else:
            raise ValueError(cur)
        star = '*t' if cls == 's5' else '1'
        legal = [c for c in cands if _compiles(pre_txt + [star if c is None else c + '=1'])]
        if not legal and cls != 's2':
            return 'cur-illegal', None          # e.g. a positional argument after a keyword
        out = set()
        valid = 0
        for npos, kws in self._instantiations(pre):
            pos = [object() for _ in range(npos)]
            kw = {k: object() for k in kws}
            try:
                ba = py_bind(self.sig, pos, kw, partial=True)
            except TypeError:
                continue
            valid += 1
            mark = object()
            answers = set()
            for c in legal:
                if c is None:
                    r = self._landing(pos + [mark], kw, mark)
                elif c in kw:
                    r = None
                else:
                    r = self._landing(pos, dict(kw, **{c: mark}), mark)
                if r is not None:
                    answers.add(r)
            if not answers:
                answers = {None}
                if cls == 's2' and self.kw_index is not None:
                    # `name=` for a parameter that already has its value: Python binds it to
                    # nothing (TypeError / SyntaxError); upstream's table expects **kwargs for
                    # the repeated-keyword form.  Both are admitted (DESIGN §4 C11, s2).
                    n = cur[1]
                    bound = n in kw or (n in ba.arguments and self.sig.parameters[n].kind not in (
                        Parameter.VAR_POSITIONAL, Parameter.VAR_KEYWORD))
                    if bound:
                        answers.add(self.kw_index)
            out |= answers
        if not valid:
            return 'pre-unbindable', None
        return 'judged', out


# ------------------------------------------------------------------ upstream's table

_SIMPLE = re.compile(r'''^(?:\d+|[A-Za-z_]\w*(?=[\[(])|)(?:[\[(][\w,\s]*[\])]?)?$''')
_NAME = re.compile(r'^[A-Za-z_]\w*$')


def _split_top(s):
    parts, depth, cur = [], 0, ''
    for ch in s:
        if ch in '([{':
            depth += 1
        elif ch in ')]}':
            depth -= 1
        if ch == ',' and depth == 0:
            parts.append(cur)
            cur = ''
        else:
            cur += ch
    parts.append(cur)
    return parts


def classify_call_text(call):
    """`f(a,b,abc=` -> (pre, cur) in the oracle's alphabet, or None if the row uses syntax
    outside it (error-recovery rows: `?`, nested open brackets, `=` inside brackets)."""
    m = re.match(r'^[A-Za-z_]\w*\((.*)$', call, re.S)
    if not m:
        return None
    parts = [p.strip() for p in _split_top(m.group(1))]
    pre = []
    for j, a in enumerate(parts):
        last = j == len(parts) - 1
        if a.startswith('**'):
            rest = a[2:].strip()
            if rest and not (_NAME.match(rest) or _SIMPLE.match(rest)):
                return None
            d, c = ('d',), ('s6',)
        elif a.startswith('*'):
            rest = a[1:].strip()
            if rest and not (_NAME.match(rest) or _SIMPLE.match(rest)):
                return None
            d, c = ('s',), ('s5',)
        elif a == '':
            if not last:
                return None
            d, c = None, ('s3',)
        elif _NAME.match(a):
            d, c = ('p',), ('s4', a)
        elif '=' in a:
            n, v = a.split('=', 1)
            n, v = n.strip(), v.strip()
            if not _NAME.match(n) or (v and not (_NAME.match(v) or _SIMPLE.match(v))):
                return None
            d, c = ('k', n), ('s2', n)
        elif _SIMPLE.match(a):
            d, c = ('p',), ('s1',)
        else:
            return None
        if last:
            return tuple(pre), c
        pre.append(d)
    return None


def upstream_table(path):
    """Reads `_calls` (and code1..code4) from upstream's test module without importing it."""
    import ast
    with open(path) as f:
        tree = ast.parse(f.read())
    consts = {}
    rows = None
    for node in tree.body:
        if isinstance(node, ast.Assign) and len(node.targets) == 1 \
                and isinstance(node.targets[0], ast.Name):
            name = node.targets[0].id
            if re.match(r'code\d+$', name) and isinstance(node.value, ast.Constant):
                consts[name] = node.value.value
            elif name == '_calls':
                rows = []
                for elt in node.value.elts:
                    code, call, exp = elt.elts
                    rows.append((consts[code.id], call.value, exp.value))
    return rows


def validate_against_upstream(path):
    """-> dict(rows, used, strict, accept, skipped, failures)."""
    rows = upstream_table(path)
    res = {'rows': len(rows or []), 'used': 0, 'strict': 0, 'accept': 0, 'skipped': [],
           'failures': []}
    oracles = {}
    for code, call, expected in rows or []:
        if code not in oracles:
            ns = {}
            exec(compile(code, '<upstream-table>', 'exec'), ns)
            fn = [v for k, v in ns.items() if inspect.isfunction(v)][0]
            oracles[code] = IndexOracle(inspect.signature(fn))
        cl = classify_call_text(call)
        if cl is None:
            res['skipped'].append(call)
            continue
        status, allowed = oracles[code].allowed(*cl)
        if status != 'judged':
            res['skipped'].append(call + ' [' + status + ']')
            continue
        res['used'] += 1
        if len(allowed) == 1:
            res['strict'] += 1
        else:
            res['accept'] += 1
        if expected not in allowed:
            res['failures'].append({'code': code, 'call': call, 'upstream': expected,
                                    'oracle': sorted(allowed, key=repr), 'class': list(cl[1])})
    return res
