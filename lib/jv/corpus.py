"""Frozen corpus (DESIGN §3.2): copies of upstream test inputs taken at the pinned commit."""
import hashlib
import os

from . import boot

ROOT = os.path.join(boot.VERIF, 'corpus')
_cache = {}


def _load():
    if 'all' in _cache:
        return _cache['all']
    out = []
    with open(os.path.join(ROOT, 'SHA256SUMS')) as f:
        for line in f:
            digest, rel = line.split()
            p = os.path.join(ROOT, rel)
            with open(p, 'rb') as g:
                data = g.read()
            if hashlib.sha256(data).hexdigest() != digest:
                raise RuntimeError('corpus file changed: ' + rel)
            out.append((rel[2:] if rel.startswith('./') else rel, data.decode('utf-8')))
    out.sort(key=lambda x: (len(x[1]), x[0]))
    _cache['all'] = out
    return out


def all_files():
    return list(_load())


def quick_files():
    """The files of <= 60 lines, smallest first."""
    return [(n, t) for n, t in _load() if t.count('\n') <= 60 and t.strip()]
