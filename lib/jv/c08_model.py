"""C08 model: base buffers, the edit-event alphabet, history enumeration (no jedi in here).

A *buffer state* is (text, undo stack).  Every event is a total, deterministic function of the
current text computed by plain line logic; an event that is not applicable to the current text
(nothing to rename, nothing to dedent, undo with an empty stack) or that would not change it is
*disabled* in that state and the history is not generated.  Clock events change no text: they
advance the virtual clock and ask for a new Script of the same text.
"""
import re

BASES = {
    # functions, calls with a signature site, an import
    'funcs': '''\
import math
from textwrap import dedent as dd


def alpha(x, y=1):
    total = x + y
    return total


def beta(items, sep=','):
    joined = sep.join(items)
    return dd(joined)


value = alpha(1, 2)
text = beta(['a'], sep='-')
root = math.sqrt(value)
''',
    # a class, methods, instance attributes, method call sites
    'klass': '''\
import math


class Shape:
    sides = 0

    def __init__(self, name, sides=4):
        self.name = name
        self.sides = sides

    def describe(self, prefix=''):
        label = prefix + self.name
        return label

    def area(self, scale):
        return math.floor(scale) * self.sides


sq = Shape('square')
msg = sq.describe('a ')
num = sq.area(2.5)
''',
    # closure, inheritance, super(), an if-block, keyword call
    'mixed': '''\
from math import floor


def make(kind, size=3):
    def inner(n):
        return [kind] * n
    return inner(size)


class Base:
    def run(self, arg):
        return arg


class Child(Base):
    def run(self, arg, extra=None):
        res = super().run(arg)
        return res


if True:
    made = make('k', size=2)
obj = Child()
got = obj.run(made, extra=floor(1.5))
''',
 # a plain function and a generator, each with unchanged leading body lines, both called AND
    # iterated at module level (so every battery run executes them): generator-ness of a function
    # whose body TAIL is edited (parso keeps the funcdef node object then)
    'gen': '''\
import math


def produce(n):
    first = "a"
    second = "b"
    third = math.floor(n)
    return 1.0


def stream(n):
    one = "a"
    two = "b"
    three = math.floor(n)
    yield 1


res = produce(3)
res.real
for item in produce(3):
    item.real
got = stream(3)
got.send
for piece in stream(3):
    piece.real
''',
    # a function whose only caller lives in a sibling module on disk (SIBLINGS): the type of its
    # parameter comes from jedi's dynamic parameter search across the project's other files
    'dyn': '''\
import math


def describe(value, unit='m'):
    label = unit
    return value.real


def scale(factor):
    return math.floor(factor)


ratio = scale(2.5)
''',
}

# per base: other files of the project directory (path mode), written next to the buffer file
SIBLINGS = {
    'dyn': {'client.py': 'from buf import describe\n\ndescribe(3.5)\n'},
}

# per base: the call typed character by character at the end of the buffer
TYPED = {
    'dyn': 'tail = scale(ratio)',
    'gen': 'tail = produce(4)',
    'funcs': 'tail = alpha(value, 5)',
    'klass': 'tail = sq.describe(msg)',
    'mixed': 'tail = obj.run(got, 1)',
}

PASTE = ['def pasted(u, v=0):\n', '    w = u\n', '    return w\n', 'pv = pasted(1)\n']
NEWDEF = 'def fresh(p, q=0): return p\n'

_DEF = re.compile(r'^(\s*)(def|class)\s+([A-Za-z_]\w*)')
_FUNC = re.compile(r'^(\s*)def\s+([A-Za-z_]\w*)\((.*)\):\s*$')


def _lines(text):
    return text.splitlines(keepends=True)


def _toplevel(line):
    return bool(line.strip()) and not line[0].isspace() and not line.startswith('#')


def _middle(lines):
    """Index of the first top-level statement start at or after the middle of the buffer."""
    n = len(lines)
    for i in range(n // 2, n):
        if _toplevel(lines[i]):
            return i
    return n


def _block_end(lines, i):
    """End (exclusive) of the block opened by the top-level line i, trailing blanks excluded."""
    j = i + 1
    while j < len(lines) and not _toplevel(lines[j]):
        j += 1
    while j > i + 1 and not lines[j - 1].strip():
        j -= 1
    return j


def _first_call_name(lines):
    """Name of the first def (top-level or method, not dunder) that is called somewhere."""
    text = ''.join(lines)
    for ln in lines:
        m = _FUNC.match(ln)
        if m and not m.group(2).startswith('__'):
            if re.search(r'\b%s\(' % re.escape(m.group(2)), text.replace(ln, '', 1)):
                return m.group(2)
    return None


# ---- events: each returns the new list of lines or None when disabled ------------------------

def ev_ins_def_top(lines, base):
    return [NEWDEF] + lines


def ev_ins_def_end(lines, base):
    return lines + [NEWDEF]


def ev_ins_def_mid(lines, base):
    i = _middle(lines)
    return lines[:i] + [NEWDEF] + lines[i:]


def _assign(lines):
    name = _first_call_name(lines)
    if name is None:
        return None
    # method or function: an unqualified reference is enough to create a use of the name
    return 'extra = %s\n' % name


def ev_ins_assign_top(lines, base):
    a = _assign(lines)
    return None if a is None else [a] + lines


def ev_ins_assign_mid(lines, base):
    a = _assign(lines)
    if a is None:
        return None
    i = _middle(lines)
    return lines[:i] + [a] + lines[i:]


def ev_ins_assign_end(lines, base):
    a = _assign(lines)
    return None if a is None else lines + [a]


def ev_ins_blank_top(lines, base):
    return ['\n'] + lines


def ev_ins_blank_mid(lines, base):
    i = _middle(lines)
    return lines[:i] + ['\n'] + lines[i:]


def ev_ins_blank_end(lines, base):
    return lines + ['\n']


def ev_ins_comment_top(lines, base):
    return ['# note alpha Shape make\n'] + lines


def ev_ins_comment_mid(lines, base):
    i = _middle(lines)
    return lines[:i] + ['# note alpha Shape make\n'] + lines[i:]


def ev_ins_comment_end(lines, base):
    return lines + ['# note alpha Shape make\n']


def ev_del_body(lines, base):
    """Delete the first body line of the first non-dunder function that has >= 2 body lines
    (a local assignment: later uses of the local become unresolved)."""
    for i, ln in enumerate(lines):
        m = _FUNC.match(ln)
        if not m or m.group(2).startswith('__'):
            continue
        ind = len(m.group(1))
        body = []
        j = i + 1
        while j < len(lines) and (not lines[j].strip()
                                  or len(lines[j]) - len(lines[j].lstrip()) > ind):
            if lines[j].strip():
                body.append(j)
            j += 1
        if len(body) >= 2:
            k = body[0]
            return lines[:k] + lines[k + 1:]
    return None


def ev_del_top(lines, base):
    """Delete the first top-level simple assignment `name = ...`."""
    for i, ln in enumerate(lines):
        if re.match(r'^[A-Za-z_]\w* = ', ln):
            return lines[:i] + lines[i + 1:]
    return None


def ev_del_header(lines, base):
    """Delete the header line of the last def/class (its body stays behind, over-indented)."""
    for i in range(len(lines) - 1, -1, -1):
        if _DEF.match(lines[i]):
            return lines[:i] + lines[i + 1:]
    return None


def ev_del_import(lines, base):
    for i, ln in enumerate(lines):
        if re.match(r'^(import|from)\s', ln):
            return lines[:i] + lines[i + 1:]
    return None


def ev_rename_def(lines, base):
    """Rename, on its header line only, the first def that is called somewhere (calls keep the
    old spelling and must stop resolving)."""
    name = _first_call_name(lines)
    if name is None:
        return None
    for i, ln in enumerate(lines):
        m = _FUNC.match(ln)
        if m and m.group(2) == name:
            new = ln.replace('def %s(' % name, 'def %s_r(' % name, 1)
            return lines[:i] + [new] + lines[i + 1:]
    return None


def ev_rename_class(lines, base):
    for i, ln in enumerate(lines):
        m = re.match(r'^class ([A-Za-z_]\w*)', ln)
        if m:
            new = ln.replace('class %s' % m.group(1), 'class %sR' % m.group(1), 1)
            return lines[:i] + [new] + lines[i + 1:]
    return None


def ev_change_params(lines, base):
    """Rewrite the parameter list of the first called def: drop its last parameter when it has
    a default, and put a new leading (after self) parameter in front."""
    name = _first_call_name(lines)
    if name is None:
        return None
    for i, ln in enumerate(lines):
        m = _FUNC.match(ln)
        if m and m.group(2) == name:
            params = [p.strip() for p in m.group(3).split(',') if p.strip()]
            head = params[:1] if params[:1] == ['self'] else []
            rest = params[len(head):]
            if 'first' in rest:
                continue
            if rest and '=' in rest[-1]:
                rest = rest[:-1]
            rest = ['first'] + rest + ['*more']
            new = '%sdef %s(%s):\n' % (m.group(1), name, ', '.join(head + rest))
            return lines[:i] + [new] + lines[i + 1:]
    return None


def ev_indent(lines, base):
    """Put the first top-level def block under a new `if True:` (header + body one level in)."""
    for i, ln in enumerate(lines):
        if ln.startswith('def '):
            j = _block_end(lines, i)
            blk = [('    ' + x if x.strip() else x) for x in lines[i:j]]
            return lines[:i] + ['if True:\n'] + blk + lines[j:]
    return None


def ev_dedent(lines, base):
    """Remove the first top-level `if True:` header and pull its block one level out; without
    one, do the same with the first top-level class (methods become module functions)."""
    for want in ('if True:', 'class '):
        for i, ln in enumerate(lines):
            if ln.startswith(want):
                j = _block_end(lines, i)
                blk = [(x[4:] if x.startswith('    ') else x) for x in lines[i + 1:j]]
                return lines[:i] + blk + lines[j:]
    return None


def ev_indent_raw(lines, base):
    """Indent the last three non-blank lines by four blanks without adding a header."""
    idx = [i for i, ln in enumerate(lines) if ln.strip()][-3:]
    if not idx:
        return None
    out = list(lines)
    for i in idx:
        out[i] = '    ' + out[i]
    return out


def _tail_line(lines, keyword):
    """Index of the last body line of the first top-level def with >= 3 body lines whose last
    body line starts with `keyword` (return / yield); None if there is none."""
    for i, ln in enumerate(lines):
        if not ln.startswith('def '):
            continue
        j = _block_end(lines, i)
        body = [k for k in range(i + 1, j) if lines[k].strip()]
        if len(body) >= 3 and lines[body[-1]].strip().split(' ')[0] == keyword:
            return body[-1]
    return None


def ev_add_yield_tail(lines, base):
    """Append `yield "s"` as the new last body line of the first function ending in a return."""
    k = _tail_line(lines, 'return')
    return None if k is None else lines[:k + 1] + ['    yield "s"\n'] + lines[k + 1:]


def ev_del_yield_tail(lines, base):
    """Delete the trailing yield line of the first function ending in a yield."""
    k = _tail_line(lines, 'yield')
    return None if k is None else lines[:k] + lines[k + 1:]


def ev_change_yield_type(lines, base):
    """Trailing `yield 1` <-> `yield 'a'` (any other trailing yield becomes `yield 1`)."""
    k = _tail_line(lines, 'yield')
    if k is None:
        return None
    new = "    yield 'a'\n" if lines[k].strip() == 'yield 1' else '    yield 1\n'
    return lines[:k] + [new] + lines[k + 1:]


def ev_return_to_yield(lines, base):
    """The trailing `return X` of the first function ending in a return becomes `yield 1`."""
    k = _tail_line(lines, 'return')
    return None if k is None else lines[:k] + ['    yield 1\n'] + lines[k + 1:]


def ev_yield_to_return(lines, base):
    """The trailing yield of the first function ending in a yield becomes `return 1.0`."""
    k = _tail_line(lines, 'yield')
    return None if k is None else lines[:k] + ['    return 1.0\n'] + lines[k + 1:]


LOOP = ['nums = [1, 2]\n', 'for num in nums:\n', '    num\n']


def ev_add_list_loop(lines, base):
    """Append a for loop over a list literal (nothing in it adds to the list)."""
    out = list(lines)
    if out and not out[-1].endswith('\n'):
        out[-1] += '\n'
    return out + LOOP


def ev_paste(lines, base):
    i = _middle(lines)
    return lines[:i] + PASTE + lines[i:]


def ev_paste_end(lines, base):
    return lines + PASTE


def ev_type(lines, base):
    """Final text of the typing event (the keystroke sequence is produced by typing_steps)."""
    out = list(lines)
    if out and not out[-1].endswith('\n'):
        out[-1] += '\n'
    return out + [TYPED[base] + '\n']


EVENTS = {
    'ins_def_top': ev_ins_def_top, 'ins_def_mid': ev_ins_def_mid, 'ins_def_end': ev_ins_def_end,
    'ins_assign_top': ev_ins_assign_top, 'ins_assign_mid': ev_ins_assign_mid,
    'ins_assign_end': ev_ins_assign_end,
    'ins_blank_top': ev_ins_blank_top, 'ins_blank_mid': ev_ins_blank_mid,
    'ins_blank_end': ev_ins_blank_end,
    'ins_comment_top': ev_ins_comment_top, 'ins_comment_mid': ev_ins_comment_mid,
    'ins_comment_end': ev_ins_comment_end,
    'del_body': ev_del_body, 'del_top': ev_del_top, 'del_header': ev_del_header,
    'del_import': ev_del_import,
    'rename_def': ev_rename_def, 'rename_class': ev_rename_class,
    'change_params': ev_change_params,
    'indent': ev_indent, 'dedent': ev_dedent, 'indent_raw': ev_indent_raw,
    'paste': ev_paste, 'paste_end': ev_paste_end,
    'type': ev_type,
    'add_yield_tail': ev_add_yield_tail, 'del_yield_tail': ev_del_yield_tail,
    'change_yield_type': ev_change_yield_type, 'return_to_yield': ev_return_to_yield,
    'yield_to_return': ev_yield_to_return,
    'add_list_loop': ev_add_list_loop,
}
YIELD_EVENTS = ('add_yield_tail', 'del_yield_tail', 'change_yield_type', 'return_to_yield',
                'yield_to_return')
CLOCK = {'wait4': 4.0, 'wait601': 601.0}
SPECIAL = ('undo',) + tuple(CLOCK)
# disk events (path mode only): `save` writes the buffer to its file (file clock +1 s) and
# re-analyses it; `reload` analyses the path WITHOUT code (jedi reads the file itself): the
# buffer text becomes what is on disk
DISK_EVENTS = ('save', 'reload')
ALL_EVENTS = tuple(e for e in EVENTS if not e.endswith(('_tail', '_type', 'to_yield', 'to_return',
                                                         'list_loop'))) + SPECIAL


def typing_steps(text, base):
    """The texts after every keystroke of the typing event (the last one is the event's text)."""
    if text and not text.endswith('\n'):
        text += '\n'
    stmt = TYPED[base]
    out = [text + stmt[:k] for k in range(1, len(stmt) + 1)]
    out.append(text + stmt + '\n')
    return out


class Buffer:
    """Text + undo stack + what is on disk under the buffer's path + how the newest Script got
    its text (`nocode`: jedi read the file itself)."""

    def __init__(self, base):
        self.base = base
        self.text = BASES[base]
        self.disk = BASES[base]
        self.nocode = False
        self.undo = []

    def clone(self):
        b = Buffer(self.base)
        b.text, b.disk, b.nocode, b.undo = self.text, self.disk, self.nocode, list(self.undo)
        return b

    def enabled(self, ev):
        return self.peek(ev) is not None

    def peek(self, ev):
        """-> (new text, clock advance) or None if disabled."""
        if ev in CLOCK:
            return self.text, CLOCK[ev]
        if ev == 'undo':
            if not self.undo:
                return None
            return self.undo[-1], 0.0
        if ev == 'save':
            return None if self.text == self.disk else (self.text, 0.0)
        if ev == 'reload':
            return self.disk, 0.0
        new = EVENTS[ev](_lines(self.text), self.base)
        if new is None:
            return None
        new = ''.join(new)
        if new == self.text:
            return None
        return new, 0.0

    def apply(self, ev):
        r = self.peek(ev)
        if r is None:
            return None
        new, dt = r
        if ev == 'undo':
            self.undo.pop()
        elif ev == 'save':
            self.disk = self.text
        elif ev not in CLOCK and new != self.text:
            self.undo.append(self.text)
        if ev not in CLOCK:
            self.nocode = ev == 'reload'
        self.text = new
        return new, dt

    def state(self):
        return (self.text, self.disk, self.nocode)


def history_states(base, events):
    """(text, disk text, nocode) after the opening (index 0) and after every event."""
    b = Buffer(base)
    out = [b.state()]
    for ev in events:
        if b.apply(ev) is None:
            raise ValueError('event %s disabled in %s:%s' % (ev, base, '/'.join(events)))
        out.append(b.state())
    return out


def path_only(events):
    return any(e in DISK_EVENTS for e in events)


def histories(base, alphabet, depth, max_clock=1):
    """Every enabled history of exactly `depth` events, in lexicographic (alphabet) order.
    Yields (tuple of event names, list of texts after each event)."""
    def rec(prefix, texts, buf, nclock):
        if len(prefix) == depth:
            yield tuple(prefix), list(texts)
            return
        for ev in alphabet:
            if ev in CLOCK and nclock >= max_clock:
                continue
            b = buf.clone()
            if b.apply(ev) is None:
                continue
            prefix.append(ev)
            texts.append(b.text)
            yield from rec(prefix, texts, b, nclock + (ev in CLOCK))
            prefix.pop()
            texts.pop()
    yield from rec([], [], Buffer(base), 0)


QUICK_ALPHABET = ('ins_def_top', 'ins_assign_mid', 'del_body', 'del_top', 'rename_def',
                  'change_params', 'indent', 'dedent', 'paste', 'type', 'undo', 'wait4',
                  'wait601')
THOROUGH_EXTRA = tuple(e for e in ALL_EVENTS if e not in QUICK_ALPHABET)
