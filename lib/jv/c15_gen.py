"""C15 generators: definition graphs -> programs, and the scaling families.

A *definition graph* is a set of atoms (i, j, k): "node i is defined in terms of node j through
an edge of kind k".  Every node i is a module-level name `n<i>` whose value is a callable; the
value of the node is `n<i>()` and its payload is the attribute `n<i>().a`.  Each atom renders to
one definition of `n<i>` mentioning `n<j>`; a node with several definitions gets them in
consecutive `if c:` blocks (c is unknown, so all of them stay live).  Kinds:

  A assignment   n_i = n_j
  C call         def n_i(): return n_j()
  H inheritance  class n_i(n_j): pass
  I import       from m_j import n_j as n_i           (forces the one-module-per-node layout)
  T attribute    class n_i: __init__: self.a = self.b; self.b = n_j().a
  L container    def n_i(): l = [n_j()]; l.append(l); l = [l[0], l]; return l[0]
  D decorator    def d(f): return n_j   /  @d def n_i(): pass
  P property     class n_i: @property def a(self): return n_j().a
  G generator    def g(): yield n_j     /  for n_i in g(): pass
  X __getattr__  class n_i: def __getattr__(self, name): return n_j().a
  R :rtype:      def n_i(): \"\"\":rtype: n_j()\"\"\"          (description kinds: dedicated family)
  S str return   def n_i() -> "n_j()": pass
  Q :type q:     def n_i(q): \"\"\":type q: n_j()\"\"\"; return q
  U str param    def n_i(q: "n_j()"): return q

Layout: one file when every atom is a live dependency there (jedi, like Python, does not see a
module-level name that is bound further down in the same scope: forward A/H atoms would be
dead); otherwise, and whenever an I atom is present, one module `m<i>.py` per node with
`import m<j>` / `m<j>.n<j>` references plus a `main.py` holding the probes.
"""
import itertools
import re

KINDS = 'ACHITLDPGX'
KIND_NAMES = {'A': 'assignment', 'C': 'call', 'H': 'inheritance', 'I': 'import',
              'T': 'attribute', 'L': 'container', 'D': 'decorator', 'P': 'property',
              'G': 'generator', 'X': '__getattr__'}
# "description" kinds: the type of n_i() is *described* by text that calls n_j - such text is
# re-parsed on every evaluation, so only the execution budget can stop a cycle through it.
# They extend the alphabet in a dedicated family (DESC_ALPHABET) and in chain_/ring_ families.
DESC_KINDS = 'RSQU'
KIND_NAMES.update({'R': 'docstring :rtype: <call>', 'S': "string return annotation '<call>'",
                   'Q': 'docstring :type q: <call>', 'U': "string parameter annotation '<call>'"})
ALL_KINDS = KINDS + DESC_KINDS
DESC_ALPHABET = DESC_KINDS + 'CT'
MODULE_LEVEL_REF = 'AH'      # kinds whose reference to n_j is evaluated at module level


# ----------------------------------------------------------------------------- enumeration

def _canon(atoms, n):
    """Smallest relabelling of an atom set on n nodes (tuple of (i, j, kindindex))."""
    best = None
    for perm in itertools.permutations(range(n)):
        t = tuple(sorted((perm[i], perm[j], k) for i, j, k in atoms))
        if best is None or t < best:
            best = t
    return best


def _connected(atoms, n):
    if n == 1:
        return True
    adj = {i: set() for i in range(n)}
    for i, j, _ in atoms:
        adj[i].add(j)
        adj[j].add(i)
    seen = {0}
    todo = [0]
    while todo:
        x = todo.pop()
        for y in adj[x]:
            if y not in seen:
                seen.add(y)
                todo.append(y)
    return len(seen) == n


def graphs(n, m, kinds=KINDS):
    """All weakly connected atom sets with exactly m atoms using exactly the nodes 0..n-1,
    at most 2 kinds per ordered pair, one representative per isomorphism class, in a
    canonical order.  Atoms are (i, j, kind letter)."""
    universe = [(i, j, k) for i in range(n) for j in range(n) for k in range(len(kinds))]
    seen = set()
    out = []
    for combo in itertools.combinations(universe, m):
        per = {}
        ok = True
        for i, j, _ in combo:
            per[(i, j)] = per.get((i, j), 0) + 1
            if per[(i, j)] > 2:
                ok = False
                break
        if not ok or not _connected(combo, n):
            continue
        c = _canon(combo, n)
        if c in seen:
            continue
        seen.add(c)
        out.append(tuple((i, j, kinds[k]) for i, j, k in c))
    return out


def shapes(n, max_arcs=None):
    """All weakly connected digraphs with self loops on exactly n nodes up to isomorphism,
    as sorted tuples of arcs (i, j); at least one arc."""
    pairs = [(i, j) for i in range(n) for j in range(n)]
    seen = set()
    out = []
    top = len(pairs) if max_arcs is None else min(max_arcs, len(pairs))
    for r in range(1, top + 1):
        for combo in itertools.combinations(pairs, r):
            atoms = [(i, j, 0) for i, j in combo]
            if not _connected(atoms, n):
                continue
            c = _canon(atoms, n)
            if c in seen:
                continue
            seen.add(c)
            out.append(tuple((i, j) for i, j, _ in c))
    return out


def kind_sets(max_size=2, kinds=KINDS):
    out = []
    for r in range(1, max_size + 1):
        out.extend(''.join(c) for c in itertools.combinations(kinds, r))
    return out


def uniform(shape, kset):
    """The atom set that puts every kind of `kset` on every arc of `shape`."""
    return tuple((i, j, k) for i, j in shape for k in kset)


def graph_id(atoms, variant):
    return 'g:%s:%s' % (variant, ','.join('%d%s%d' % (i, k, j) for i, j, k in atoms))


def parse_graph_id(gid):
    _, variant, body = gid.split(':')
    atoms = []
    for a in body.split(','):
        m = re.fullmatch(r'(\d+)([A-Z])(\d+)', a)
        atoms.append((int(m.group(1)), int(m.group(3)), m.group(2)))
    return tuple(atoms), variant


# ----------------------------------------------------------------------------- rendering

def _block(i, j, k, ref, tag):
    n = 'n%d' % i
    if k == 'A':
        return ['%s = %s' % (n, ref)]
    if k == 'C':
        return ['def %s():' % n, '    return %s()' % ref]
    if k == 'H':
        return ['class %s(%s):' % (n, ref), '    pass']
    if k == 'I':
        if i == j:
            return ['from m%d import n%d' % (j, j)]
        return ['from m%d import n%d as %s' % (j, j, n)]
    if k == 'T':
        return ['class %s:' % n, '    def __init__(self):', '        self.a = self.b',
                '        self.b = %s().a' % ref]
    if k == 'L':
        return ['def %s():' % n, '    l = [%s()]' % ref, '    l.append(l)', '    l = [l[0], l]',
                '    return l[0]']
    if k == 'D':
        return ['def d%s(f):' % tag, '    return %s' % ref, '@d%s' % tag, 'def %s():' % n,
                '    pass']
    if k == 'P':
        return ['class %s:' % n, '    @property', '    def a(self):',
                '        return %s().a' % ref]
    if k == 'G':
        return ['def g%s():' % tag, '    yield %s' % ref, 'for %s in g%s():' % (n, tag),
                '    pass']
    if k == 'X':
        return ['class %s:' % n, '    def __getattr__(self, name):',
                '        return %s().a' % ref]
    if k == 'R':
        return ['def %s():' % n, '    \"\"\"', '    :rtype: %s()' % ref, '    \"\"\"']
    if k == 'S':
        return ['def %s() -> "%s()":' % (n, ref), '    pass']
    if k == 'Q':
        return ['def %s(q):' % n, '    \"\"\"', '    :type q: %s()' % ref, '    \"\"\"',
                '    return q']
    if k == 'U':
        return ['def %s(q: "%s()"):' % (n, ref), '    return q']
    raise ValueError(k)


def _base(i):
    return ['class n%d:' % i, '    class a:', '        pass']


def _node_lines(i, atoms, variant, modular):
    outs = [(j, k) for (x, j, k) in atoms if x == i]
    blocks = []
    if variant == 'b' or not outs:
        blocks.append(_base(i))
    for j, k in outs:
        ref = 'n%d' % j if (not modular or j == i) else 'm%d.n%d' % (j, j)
        blocks.append(_block(i, j, k, ref, '%d_%d' % (i, j)))
    if len(blocks) == 1:
        return blocks[0]
    lines = []
    for b in blocks:
        lines.append('if c:')
        lines.extend('    ' + s for s in b)
    return lines


def needs_modules(atoms):
    return any(k == 'I' or (k in MODULE_LEVEL_REF and i < j) for i, j, k in atoms)


def render(atoms, variant='p'):
    """-> {'files': {relpath: text}, 'layout': 'file'|'mods'}.  variant 'p' (pure: only nodes
    without outgoing atoms get the base definition `class n_i: class a: pass`) or 'b' (every node
    additionally has the base definition)."""
    n = 1 + max(max(i, j) for i, j, _ in atoms)
    modular = needs_modules(atoms)
    files = {}
    if not modular:
        lines = []
        for i in range(n):
            lines.extend(_node_lines(i, atoms, variant, False))
        for i in range(n):
            lines.append('n%d().a' % i)
            lines.append('n%d().a.' % i)
        lines.append('')
        files['main.py'] = '\n'.join(lines)
    else:
        for i in range(n):
            targets = sorted({j for (x, j, k) in atoms if x == i and j != i and k != 'I'})
            lines = ['import m%d' % j for j in targets]
            lines.extend(_node_lines(i, atoms, variant, True))
            lines.append('n%d().a' % i)
            lines.append('')
            files['m%d.py' % i] = '\n'.join(lines)
        lines = ['import m%d' % i for i in range(n)]
        for i in range(n):
            lines.append('m%d.n%d().a' % (i, i))
            lines.append('m%d.n%d().a.' % (i, i))
        lines.append('')
        files['main.py'] = '\n'.join(lines)
    return {'files': files, 'layout': 'mods' if modular else 'file'}


# ----------------------------------------------------------------------------- scaling (b)

SCALING = ['assign_chain', 'call_chain', 'inherit_chain', 'diamonds', 'call_tree',
           'nested_containers', 'nested_closures', 'decorator_chain', 'import_chain',
           'assign_diamonds', 'attr_diamonds', 'instance_tree',
           'builtin_call_chain', 'builtin_op_chain', 'method_chain_builtin'] \
    + ['chain_' + k for k in ALL_KINDS] + ['ring_' + k for k in ALL_KINDS]


def scaling(family, n):
    """-> {'files': {...}}; main.py ends with the probe lines `r.x` / `r.x.` where r is the
    name at the end of the chain and x the payload attribute of class K.
    `chain_<kind>` / `ring_<kind>` reuse the graph renderer: n arcs of one edge kind in a row
    (node n carries the base definition) resp. one directed cycle through n nodes; their probe
    lines are `r = n0()`, `r.a`, `r.a.`."""
    files = {}
    if family.startswith(('ring_', 'chain_')):
        if family.startswith('ring_'):
            # one directed cycle through n nodes, every arc of the same kind (n = 1: self loop)
            atoms = tuple((i, (i + 1) % n, family[5:]) for i in range(n))
        else:
            # n arcs of the same kind in a row; node n carries the base definition
            atoms = tuple((i, i + 1, family[6:]) for i in range(n))
        prog = render(atoms, 'p')
        files = prog['files']
        head = 'm0.n0' if prog['layout'] == 'mods' else 'n0'
        files['main.py'] += 'r = %s()\nr.a\nr.a.\n' % head
        return {'files': files}
    L = ['class K:', '    x = 1']
    if family == 'assign_chain':
        L.append('a0 = K()')
        for k in range(1, n + 1):
            L.append('a%d = a%d' % (k, k - 1))
        L.append('r = a%d' % n)
    elif family == 'call_chain':
        L += ['def f0():', '    return K()']
        for k in range(1, n + 1):
            L += ['def f%d():' % k, '    return f%d()' % (k - 1)]
        L.append('r = f%d()' % n)
    elif family == 'inherit_chain':
        L += ['class C0(K):', '    pass']
        for k in range(1, n + 1):
            L += ['class C%d(C%d):' % (k, k - 1), '    pass']
        L.append('r = C%d()' % n)
    elif family == 'diamonds':
        L += ['class A0(K):', '    pass']
        for k in range(n):
            L += ['class B%d(A%d):' % (k, k), '    pass', 'class D%d(A%d):' % (k, k), '    pass',
                  'class A%d(B%d, D%d):' % (k + 1, k, k), '    pass']
        L.append('r = A%d()' % n)
    elif family == 'call_tree':
        L += ['def f0():', '    return K()']
        for k in range(1, n + 1):
            L += ['def f%d():' % k, '    if c:', '        return f%d()' % (k - 1),
                  '    return f%d()' % (k - 1)]
        L.append('r = f%d()' % n)
    elif family == 'nested_containers':
        L.append('l0 = [K()]')
        for k in range(1, n + 1):
            L.append('l%d = [l%d]' % (k, k - 1))
        L.append('r = l%d%s' % (n, '[0]' * (n + 1)))
    elif family == 'nested_closures':
        for k in range(n + 1):
            L.append('    ' * k + 'def f%d():' % k)
            L.append('    ' * (k + 1) + 'v%d = %s' % (k, 'K()' if k == 0 else 'v%d' % (k - 1)))
        for k in range(n, -1, -1):
            L.append('    ' * (k + 1) + ('return v%d' % k if k == n else 'return f%d()' % (k + 1)))
        L.append('r = f0()')
    elif family == 'decorator_chain':
        L += ['def d0(f):', '    return f']
        for k in range(1, n + 1):
            L += ['def d%d(f):' % k, '    return d%d(f)' % (k - 1)]
        for k in range(n, -1, -1):
            L.append('@d%d' % k)
        L += ['def h():', '    return K()', 'r = h()']
    elif family == 'assign_diamonds':
        # binary tree of plain statements: nothing but the per-node inference cap bounds it
        L.append('a0 = K()')
        for k in range(1, n + 1):
            L.append('a%d = a%d if c else a%d' % (k, k - 1, k - 1))
        L.append('r = a%d' % n)
    elif family == 'attr_diamonds':
        L += ['class S:', '    def __init__(self):', '        self.a0 = K()']
        for k in range(1, n + 1):
            L.append('        self.a%d = self.a%d if c else self.a%d' % (k, k - 1, k - 1))
        L.append('r = S().a%d' % n)
    elif family in ('builtin_call_chain', 'builtin_op_chain'):
        # chain of DISTINCT functions; every level completes an execution in the builtins stub
        # (len() / int.__add__) before it calls the next one, so only the execution *depth*
        # limit can stop the descent (no per-function limit applies)
        head = 'len("a") + ' if family == 'builtin_call_chain' else '1 + '
        L += ['def f0():', '    return K()']
        for k in range(1, n + 1):
            L += ['def f%d():' % k, '    return %sf%d()' % (head, k - 1)]
        L.append('r = f%d()' % n)
    elif family == 'method_chain_builtin':
        L += ['class C0:', '    def m(self):', '        return K()']
        for k in range(1, n + 1):
            L += ['class C%d:' % k, '    def __init__(self):', '        self.n = len("a")',
                  '        self.o = C%d()' % (k - 1), '    def m(self):',
                  '        v = self.n + self.o.m()', '        return v']
        L.append('r = C%d().m()' % n)
    elif family == 'instance_tree':
        # binary tree through fresh instances: every S() is a new value, so nothing is shared
        L += ['class S:', '    def __init__(self):', '        self.a0 = K()']
        for k in range(1, n + 1):
            L.append('        self.a%d = S().a%d if c else S().a%d' % (k, k - 1, k - 1))
        L.append('r = S().a%d' % n)
    elif family == 'import_chain':
        files['c0.py'] = 'class K:\n    x = 1\nv = K()\n'
        for k in range(1, n + 1):
            files['c%d.py' % k] = 'from c%d import v\n' % (k - 1)
        L = ['from c%d import v' % n, 'r = v']
    else:
        raise ValueError(family)
    L += ['r.x', 'r.x.', '']
    files['main.py'] = '\n'.join(L)
    return {'files': files}
