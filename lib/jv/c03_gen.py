"""C03 helper: scope-nesting programs, their rendering, and the Python-side reference model.

A *shape* is a tree of scopes.  Every scope is `[kind, pattern, form, children]`:

  kind     M module | F def | C class | L lambda | G comprehension
  pattern  how identifier `x` is bound/declared in that scope relative to its uses (PATTERNS)
  form     the syntactic form of the binding `B` of a statement scope (FORMS)
  children list of child scopes (chains have <= 1 child; the sibling family has 2 at one level)

Every binding of `x` writes a distinct integer *tag*; every use is `u(k, x)` where `k` numbers
the use and `u` (supplied at run time) records which tag it saw and returns its argument.

Nothing in here knows what jedi should answer: the expected scopes come from `symtable` and
from running the program (see `analyse`).
"""
import ast
import re
import symtable
import types

STMT_KINDS = 'MFC'
EXPR_KINDS = 'LG'

# binding patterns per scope kind -------------------------------------------------------------
#   none    U C U            before  B U C U         after  U C B U
#   late    Cdef B U Ccall U (child defined before the binding, run after it; F/L children only)
#   both    B U C B' U       gdecl   global x; U C U   gbind  global x; B U C U
#   nldecl  nonlocal x; U C U        nlbind  nonlocal x; B U C U
#   param   x is a parameter (call passes the tag)     pbefore  parameter and B U C U
#   pdef    parameter with default `[u(k, x), T][1]`: the default's use belongs to the encloser
# expression scopes (lambda: body is a tuple display evaluated left to right; comprehension:
# element is such a tuple):
#   L: none (U C) | param | pdef | before ((x := T), U, C) | after (U, C, (x := T), U)
#   G: none | for (target x) | foriter (target x, the iterable contains a use: belongs to the
#      encloser) | forif (target x, a use in the condition) | before/after (walrus: binds in the
#      enclosing non-comprehension scope) | for2 (x is the target of a second `for`) |
#      for2iter (target x, a use in the iterable of a second `for`: inside the comprehension)
CORE = {
    'M': ['none', 'before', 'after'],
    'F': ['none', 'before', 'after', 'gbind', 'nlbind', 'param'],
    'C': ['none', 'before', 'after', 'gbind', 'nlbind'],
    'L': ['none', 'param', 'before'],
    'G': ['none', 'for', 'before'],
}
MINI = {
    'M': ['none', 'before'],
    'F': ['none', 'before', 'param', 'nlbind'],
    'C': ['none', 'before'],
    'L': ['none', 'param'],
    'G': ['none', 'for'],
}
FULL = {
    'M': ['none', 'before', 'after', 'late', 'both'],
    'F': ['none', 'before', 'after', 'gbind', 'nlbind', 'param', 'late', 'both', 'gdecl',
          'nldecl', 'pbefore', 'pdef'],
    'C': ['none', 'before', 'after', 'gbind', 'nlbind', 'late', 'both', 'gdecl', 'nldecl'],
    'L': ['none', 'param', 'before', 'after', 'pdef'],
    'G': ['none', 'for', 'before', 'after', 'foriter', 'forif', 'for2', 'for2iter'],
}
# leading-name first iterables (box renderings): the comprehension iterates `x`, `x.copy()` or
# `x[0]` -- a use of the ENCLOSING scope that is the first leaf of the iterable -- with target `_`
# (lead*) or target `x` itself (leadself*)
LEAD = dict(CORE, G=['none', 'for'] + ['lead', 'leadcall', 'leadsub', 'leadself', 'leadselfcall',
                                       'leadselfsub'])
HAS_B = ('before', 'after', 'late', 'both', 'gbind', 'nlbind', 'pbefore')
FORMS = ['assign', 'import', 'for', 'with', 'except', 'walrus', 'delrebind', 'selfref']
CHILD_KINDS = {'M': 'FCLG', 'F': 'FCLG', 'C': 'FCLG', 'L': 'LG', 'G': 'LG'}
MODS = ['os', 'sys', 're', 'io', 'abc', 'ast', 'json', 'math', 'time', 'types', 'errno', 'stat',
        'glob', 'copy', 'enum', 'heapq']
IND = '    '
# distractors: statements/expressions that spell `x` without binding or reading the identifier,
# placed right before every use (style 'list+attrstore' etc.; '+mix' = all of them)
DISTRACTORS = ['attrstore', 'augattr', 'attrload', 'kwarg', 'dictkey']
_D_STMT = {'attrstore': 'o.\x01A\x02x = 99', 'augattr': 'o.\x01A\x02x += 1',
           'attrload': 'o.\x01A\x02x', 'kwarg': 'd(\x01A\x02x=0)', 'dictkey': "{'\x01A\x02x': 0}"}
_D_EXPR = dict(_D_STMT, attrstore='o.\x01A\x02x', augattr='o.\x01A\x02x')


def shape_id(scope):
    kind, pat, form, children = scope
    s = kind + '.' + pat
    if form != 'assign':
        s += '.' + form
    if children:
        s += '(' + ','.join(shape_id(c) for c in children) + ')'
    return s


def depth(scope):
    return (0 if scope[0] == 'M' else 1) + max([depth(c) for c in scope[3]] or [0])


# --- enumeration (canonical order: by depth, then alphabet order) ------------------------------

def _options(kind, alpha, forms):
    for pat in alpha[kind]:
        if kind in STMT_KINDS and pat in HAS_B:
            for f in forms:
                yield pat, f
        else:
            yield pat, 'assign'


def chains(d, alpha, forms, kinds='FCLG', alpha_by_depth=None, forms_by_depth=None):
    """All chains module > s1 > ... > sd (exactly d nested scopes)."""
    def rec(level, parent_kind):
        if level > d:
            yield []
            return
        a = (alpha_by_depth or {}).get(level, alpha)
        f = (forms_by_depth or {}).get(level, forms)
        for kind in (['M'] if level == 0 else [k for k in CHILD_KINDS[parent_kind] if k in kinds]):
            for pat, form in _options(kind, a, f):
                if pat == 'late' and level == d:
                    continue        # no child: identical to `before` up to statement order
                for rest in rec(level + 1, kind):
                    if pat == 'late' and rest and rest[0][0] not in 'FL':
                        continue    # a class / comprehension child runs where it is defined
                    yield [(kind, pat, form)] + rest
    for ch in rec(0, None):
        node = None
        for kind, pat, form in reversed(ch):
            node = [kind, pat, form, [node] if node else []]
        yield node


def pairs(alpha, forms, kinds='FCLG', under=('M',)):
    """Module (or module > F) with two sibling scopes of depth 1."""
    for top in under:
        for mpat, mform in _options('M', alpha, forms):
            if mpat == 'late':
                continue
            tops = [None] if top == 'M' else list(_options(top, alpha, forms))
            for t in tops:
                if t and t[0] == 'late':
                    continue
                pk = 'M' if top == 'M' else top
                for k1 in [k for k in CHILD_KINDS[pk] if k in kinds]:
                    for p1, f1 in _options(k1, alpha, forms):
                        if p1 == 'late':
                            continue
                        for k2 in [k for k in CHILD_KINDS[pk] if k in kinds]:
                            for p2, f2 in _options(k2, alpha, forms):
                                if p2 == 'late':
                                    continue
                                kids = [[k1, p1, f1, []], [k2, p2, f2, []]]
                                if top == 'M':
                                    yield ['M', mpat, mform, kids]
                                else:
                                    yield ['M', mpat, mform, [[top, t[0], t[1], kids]]]


# --- rendering -------------------------------------------------------------------------------

def split_style(style):
    """'list+box+mix' -> ('list', ['box', 'mix'])"""
    parts = style.split('+')
    return parts[0], parts[1:]


_COMPOUND = re.compile(r'(@|(async|def|class|if|elif|else|for|while|with|try|except|finally|match|case)\b)')


def join_simple_statements(raw):
    """Same program, but runs of simple statements with equal indentation are written on one
    line separated by `; ` (markers \x01..\x02 are kept, positions are computed afterwards)."""
    def simple(line):
        t = re.sub(r'\x01[BUDXA]\d*\x02', '', line).strip()
        return bool(t) and not t.endswith(':') and not t.endswith('\\') \
            and not _COMPOUND.match(t) and t.count('(') == t.count(')') \
            and t.count('[') == t.count(']') and t.count('{') == t.count('}')
    out = []
    for line in raw.split('\n'):
        ind = len(line) - len(line.lstrip(' '))
        if out and simple(line) and out[-1][1] == ind and out[-1][2]:
            out[-1][0] += '; ' + line.lstrip(' ')
        else:
            out.append([line, ind, simple(line)])
    return '\n'.join(o[0] for o in out)


LEAD_FORMS = {'': 'x', 'call': 'x.copy()', 'sub': 'x[0]'}
LEAD_PATTERNS = ['lead', 'leadcall', 'leadsub', 'leadself', 'leadselfcall', 'leadselfsub']


class Render:
    """Deterministic text of a shape.  `style` is the comprehension flavour (list/gen/set/dict);
    `dead` the use numbers that are replaced by the literal 0 (uses that raise NameError)."""

    def __init__(self, shape, style='list', dead=()):
        style, opts = split_style(style)
        self.style = style
        # `box`: every tag is written as b(T), an iterable object that carries its tag, so that
        # a bare `x` (or `x.copy()`, `x[0]`) can be the first iterable of a comprehension
        self.box = 'box' in opts
        distract = ([o for o in opts if o not in ('box', 'semi')] or [''])[0]
        self.distract = DISTRACTORS if distract == 'mix' else [distract] if distract else []
        self.distractors = []   # (line, col) of the x in every distractor
        self.dead = set(dead)
        self.ntag = 0
        self.nuse = 0
        self.nscope = 0
        self.modtags = {}
        raw = '\n'.join(self.stmt_body(shape, 0)) + '\n'
        if 'semi' in opts:
            # `semi`: consecutive simple statements of one block share a physical line (`a; b`)
            raw = join_simple_statements(raw)
        self.uses = {}       # k -> (line, col)
        self.binds = {}      # tag -> (line, col)
        self.decls = []      # (line, col) of names in global/nonlocal statements
        self.dels = []
        out = []
        pos = 0
        for m in re.finditer(r'\x01([BUDXA])(\d*)\x02', raw):
            out.append(raw[pos:m.start()])
            pos = m.end()
            text = ''.join(out)
            line = text.count('\n') + 1
            col = len(text) - (text.rfind('\n') + 1)
            if m.group(1) == 'B':
                self.binds[int(m.group(2))] = (line, col)
            elif m.group(1) == 'U':
                self.uses[int(m.group(2))] = (line, col)
            elif m.group(1) == 'D':
                self.decls.append((line, col))
            elif m.group(1) == 'A':
                self.distractors.append((line, col))
            else:
                self.dels.append((line, col))
        out.append(raw[pos:])
        self.text = ''.join(out)

    # markers
    def B(self):
        self.ntag += 1
        return self.ntag, '\x01B%d\x02x' % self.ntag

    def v(self, t):
        return 'b(%d)' % t if self.box else '%d' % t

    def U(self):
        self.nuse += 1
        k = self.nuse
        if k in self.dead:
            return 'u(%d, 0)' % k
        return 'u(%d, \x01U%d\x02x)' % (k, k)

    def binding(self, form, ind):
        """-> (lines, indent for the first use after it)"""
        if form == 'assign':
            t, b = self.B()
            return [ind + '%s = %s' % (b, self.v(t))], ind
        if form == 'import':
            t, b = self.B()
            mod = MODS[len(self.modtags) % len(MODS)]
            self.modtags[mod] = t
            return [ind + 'import %s as %s' % (mod, b)], ind
        if form == 'walrus':
            t, b = self.B()
            return [ind + '(%s := %s)' % (b, self.v(t))], ind
        if form == 'delrebind':
            t0, b0 = self.B()
            t, b = self.B()
            return [ind + '%s = %s' % (b0, self.v(t0)), ind + 'del \x01X\x02x',
                    ind + '%s = %s' % (b, self.v(t))], ind
        if form == 'selfref':     # the right-hand side still sees the previous binding
            t0, b0 = self.B()
            use = self.U()
            t, b = self.B()
            return [ind + '%s = %s' % (b0, self.v(t0)),
                    ind + '%s = [%s, %s][1]' % (b, use, self.v(t))], ind
        if form == 'for':
            t, b = self.B()
            return [ind + 'for %s in [%s]:' % (b, self.v(t))], ind + IND
        if form == 'with':
            t, b = self.B()
            return [ind + 'with cm(%s) as %s:' % (self.v(t), b)], ind + IND
        if form == 'except':
            t, b = self.B()
            return [ind + 'try:', ind + IND + 'raise Exception(%s)' % self.v(t),
                    ind + 'except Exception as %s:' % b], ind + IND
        raise ValueError(form)

    def params(self, pat):
        """-> (parameter list text, call argument text)"""
        if pat in ('param', 'pbefore'):
            t, b = self.B()
            return b, self.v(t)
        if pat == 'pdef':
            use = self.U()
            t, b = self.B()
            return '%s=[%s, %s][1]' % (b, use, self.v(t)), ''
        return '', ''

    def child_stmt(self, scope, ind):
        """A child scope emitted as statements -> (definition lines, call lines)."""
        kind, pat, form, kids = scope
        self.nscope += 1
        n = self.nscope
        if kind == 'F':
            par, arg = self.params(pat)
            return ([ind + 'def f%d(%s):' % (n, par)] + self.stmt_body(scope, len(ind) // 4 + 1),
                    [ind + 'f%d(%s)' % (n, arg)])
        if kind == 'C':
            return [ind + 'class C%d:' % n] + self.stmt_body(scope, len(ind) // 4 + 1), []
        if kind == 'L':
            par, arg = self.params(pat)
            return ([ind + 'g%d = lambda %s: %s' % (n, par, self.expr_body(scope))],
                    [ind + 'g%d(%s)' % (n, arg)])
        if kind == 'G':
            return [ind + self.comp(scope)], []
        raise ValueError(kind)

    def child_expr(self, scope):
        kind, pat, form, kids = scope
        self.nscope += 1
        if kind == 'L':
            par, arg = self.params(pat)
            return '(lambda %s: %s)(%s)' % (par, self.expr_body(scope), arg)
        if kind == 'G':
            return self.comp(scope)
        raise ValueError(kind)

    def stmt_body(self, scope, level):
        kind, pat, form, kids = scope
        ind = IND * level
        lines = []

        def use(i=ind):
            for dk in self.distract:
                lines.append(i + _D_STMT[dk])
            lines.append(i + self.U())

        def children(part='both'):
            for c in kids:
                d, call = self.child_stmt(c, ind)
                lines.extend(d)
                lines.extend(call)

        if pat in ('gdecl', 'gbind'):
            lines.append(ind + 'global \x01D\x02x')
        if pat in ('nldecl', 'nlbind'):
            lines.append(ind + 'nonlocal \x01D\x02x')
        if pat in ('none', 'gdecl', 'nldecl', 'param', 'pdef'):
            use()
            children()
            use()
        elif pat in ('before', 'gbind', 'nlbind', 'pbefore'):
            b, ui = self.binding(form, ind)
            lines.extend(b)
            use(ui)
            children()
            use()
        elif pat == 'after':
            use()
            children()
            b, ui = self.binding(form, ind)
            lines.extend(b)
            if ui != ind:
                lines.append(ui + 'pass')
            use()
        elif pat == 'late':
            calls = []
            for c in kids:
                d, call = self.child_stmt(c, ind)
                lines.extend(d)
                calls.extend(call)
            b, ui = self.binding(form, ind)
            lines.extend(b)
            use(ui)
            lines.extend(calls)
            use()
        elif pat == 'both':
            b, ui = self.binding(form, ind)
            lines.extend(b)
            use(ui)
            children()
            b2, _ = self.binding('assign', ind)
            lines.extend(b2)
            use()
        else:
            raise ValueError(pat)
        return lines

    def _elements(self, scope):
        kind, pat, form, kids = scope
        el = []

        def walrus():
            t, b = self.B()
            return '(%s := %s)' % (b, self.v(t))

        if pat == 'before':
            el.append(walrus())
        el.extend(_D_EXPR[dk] for dk in self.distract)
        el.append(self.U())
        for c in kids:
            el.append(self.child_expr(c))
        if pat == 'after':
            el.append(walrus())
            el.extend(_D_EXPR[dk] for dk in self.distract)
            el.append(self.U())
        return '(' + ', '.join(el) + ',)'

    def expr_body(self, scope):
        return self._elements(scope)

    def comp(self, scope):
        kind, pat, form, kids = scope
        cond = ''
        arm = ''
        if pat in ('for', 'foriter', 'forif'):
            # the iterable is evaluated (in the enclosing scope) before the target is bound
            if pat == 'foriter':
                use = self.U()
                t, b = self.B()
                it = '[%s, %s][1:]' % (use, self.v(t))
            else:
                t, b = self.B()
                it = '[%s]' % self.v(t)
            target = b
        elif pat == 'for2':
            t, b = self.B()
            target, it = '_', '[0] for %s in [%s]' % (b, self.v(t))
        elif pat == 'for2iter':
            t, b = self.B()
            target, it = b, '[%s] for _ in [%s]' % (self.v(t), self.U())
        elif pat in LEAD_PATTERNS:
            # the first iterable *starts with* the identifier: a use of the enclosing scope whose
            # value is observed when the object is iterated (arm(k, T): the next iteration is use
            # k and yields b(T)); box renderings only
            own = pat.startswith('leadself')
            form = LEAD_FORMS[pat[len('leadself' if own else 'lead'):]]
            self.nuse += 1
            k = self.nuse
            if own:
                t, target = self.B()
            else:
                t, target = 0, '_'
            if k in self.dead:
                it = 'dz(%d)' % t
            else:
                arm = 'arm(%d, %d)' % (k, t)
                it = '\x01U%d\x02' % k + form
        else:
            target, it = '_', '[0]'
        # use/tag numbers only have to be distinct, not in source order
        elt = self._elements(scope)
        if pat == 'forif':
            cond = ' if ' + self.U()
        core = '%s for %s in %s%s' % (elt, target, it, cond)
        if self.style == 'list':
            text = '[' + core + ']'
        elif self.style == 'gen':
            text = 'list(' + core + ')'
        elif self.style == 'set':
            text = '{len(' + elt + ') for %s in %s%s}' % (target, it, cond)
        elif self.style == 'dict':
            text = '{0: ' + core + '}'
        else:
            raise ValueError(self.style)
        if arm:
            text = '(%s, %s)[1]' % (arm, text)
        return text


# --- occurrences of `x` by Python's own parser ------------------------------------------------

class _Occ(ast.NodeVisitor):
    """Collects every occurrence of identifier x with the path of the scope whose code *executes*
    it (defaults/decorators/bases and the first iterable of a comprehension belong to the
    enclosing scope), mirroring the order in which `symtable` creates child tables."""

    def __init__(self, text):
        self.lines = text.split('\n')
        self.path = ()
        self.counter = {(): 0}
        self.kinds = {(): 'M'}
        self.occ = []        # dicts: pos, role(load/store/param/decl/del), path, top (bool)
        self.top = False     # inside a simple statement directly in a scope body?

    def _child(self, kind):
        n = self.counter[self.path]
        self.counter[self.path] = n + 1
        p = self.path + (n,)
        self.counter[p] = 0
        self.kinds[p] = kind
        return p

    def _add(self, line, col, role, top=None):
        assert self.lines[line - 1][col:col + 1] == 'x', (line, col, role)
        self.occ.append({'pos': (line, col), 'role': role, 'path': self.path,
                         'top': self.top if top is None else top})

    def _body(self, stmts):
        for s in stmts:
            simple = isinstance(s, (ast.Assign, ast.AugAssign, ast.Expr, ast.Import, ast.Delete,
                                    ast.Global, ast.Nonlocal, ast.Pass))
            old = self.top
            self.top = simple
            self.visit(s)
            self.top = old

    def visit_Module(self, node):
        self._body(node.body)

    def _nested(self, stmts):
        old = self.top
        self.top = False
        for s in stmts:
            self.visit(s)
        self.top = old

    def visit_For(self, node):
        old = self.top
        self.top = False
        self.visit(node.target)
        self.visit(node.iter)
        self._nested(node.body + node.orelse)
        self.top = old

    def visit_With(self, node):
        old = self.top
        self.top = False
        for it in node.items:
            self.visit(it)
        self._nested(node.body)
        self.top = old

    def visit_Try(self, node):
        old = self.top
        self.top = False
        self._nested(node.body)
        for h in node.handlers:
            self.visit(h)
        self._nested(node.orelse + node.finalbody)
        self.top = old

    def visit_ExceptHandler(self, node):
        if node.type is not None:
            self.visit(node.type)
        if node.name == 'x':
            line = self.lines[node.lineno - 1]
            m = re.search(r'\bas x\b', line)
            self._add(node.lineno, m.start() + 3, 'store')
        self._nested(node.body)

    def _args(self, a):
        for d in a.defaults + [d for d in a.kw_defaults if d is not None]:
            self.visit(d)

    def _params(self, a):
        for p in a.posonlyargs + a.args + ([a.vararg] if a.vararg else []) + a.kwonlyargs \
                + ([a.kwarg] if a.kwarg else []):
            if p.arg == 'x':     # bound before the first statement: straight-line
                self._add(p.lineno, p.col_offset, 'param', top=True)

    def visit_FunctionDef(self, node):
        for d in node.decorator_list:
            self.visit(d)
        self._args(node.args)
        p = self._child('F')
        outer, self.path = self.path, p
        oldtop, self.top = self.top, False
        self._params(node.args)
        self._body(node.body)
        self.path, self.top = outer, oldtop

    def visit_Lambda(self, node):
        self._args(node.args)
        p = self._child('L')
        outer, self.path = self.path, p
        oldtop, self.top = self.top, False
        self._params(node.args)
        self.visit(node.body)
        self.path, self.top = outer, oldtop

    def visit_ClassDef(self, node):
        for d in node.decorator_list + node.bases + [k.value for k in node.keywords]:
            self.visit(d)
        p = self._child('C')
        outer, self.path = self.path, p
        oldtop = self.top
        self._body(node.body)
        self.path, self.top = outer, oldtop

    def _comp(self, node, elts):
        gens = node.generators
        self.visit(gens[0].iter)
        p = self._child('G')
        outer, self.path = self.path, p
        oldtop, self.top = self.top, False
        # symtable order: target, conditions of the first generator, further generators, element
        self.visit(gens[0].target)
        for c in gens[0].ifs:
            self.visit(c)
        for g in gens[1:]:
            self.visit(g.target)
            self.visit(g.iter)
            for c in g.ifs:
                self.visit(c)
        for e in elts:
            self.visit(e)
        self.path, self.top = outer, oldtop

    def visit_ListComp(self, node):
        self._comp(node, [node.elt])

    visit_SetComp = visit_GeneratorExp = visit_ListComp

    def visit_DictComp(self, node):
        self._comp(node, [node.key, node.value])

    def visit_Name(self, node):
        if node.id == 'x':
            role = {'Load': 'load', 'Store': 'store', 'Del': 'del'}[type(node.ctx).__name__]
            self._add(node.lineno, node.col_offset, role)

    def visit_Global(self, node):
        if 'x' in node.names:
            line = self.lines[node.lineno - 1]
            m = re.search(r'\bx\b', line[node.col_offset:])
            self._add(node.lineno, node.col_offset + m.start(), 'decl')

    visit_Nonlocal = visit_Global

    def visit_alias(self, node):
        if node.asname == 'x':
            self._add(node.end_lineno, node.end_col_offset - 1, 'store')
        elif node.asname is None and node.name == 'x':
            self._add(node.lineno, node.col_offset, 'store')


def occurrences(text):
    v = _Occ(text)
    v.visit(ast.parse(text))
    return v.occ, v.kinds


# --- symtable: which scope owns `x` as seen from a given scope -------------------------------

def tables(text):
    """path -> symtable table, children numbered in order of creation."""
    out = {}

    def rec(t, path):
        out[path] = t
        for i, c in enumerate(t.get_children()):
            rec(c, path + (i,))
    rec(symtable.symtable(text, '<c03>', 'exec'), ())
    return out


def symclass(tabs, path):
    """How symtable classifies x in the scope at `path` (part of the failure class)."""
    if not path:
        return 'module-level'
    try:
        s = tabs[path].lookup('x')
    except KeyError:
        return 'absent'
    if s.is_declared_global():
        return 'declared-global'
    if s.is_nonlocal():
        return 'declared-nonlocal'
    if s.is_global():
        return 'implicit-global'
    if s.is_free():
        return 'free'
    if s.is_local():
        return 'local'
    return 'unknown'


def owner(tabs, path):
    """Scope path that `symtable` says identifier x resolves to from the scope at `path`
    (None: builtins / unbound)."""
    t = tabs[path]
    try:
        s = t.lookup('x')
    except KeyError:
        return None
    if not path:
        return ()
    if s.is_global():
        return ()
    if s.is_free():
        p = path[:-1]
        while p:
            tp = tabs[p]
            if tp.get_type() != 'class':
                try:
                    sp = tp.lookup('x')
                except KeyError:
                    sp = None
                if sp is not None:
                    if sp.is_global():
                        return ()
                    if sp.is_local() and not sp.is_free():
                        return p
            p = p[:-1]
        return ()
    if s.is_local():
        return path
    return None


# --- running the program ----------------------------------------------------------------------

class _CM:
    def __init__(self, v):
        self.v = v

    def __enter__(self):
        return self.v

    def __exit__(self, *a):
        return False


def execute(text, modtags):
    """Run the program.  -> ('ok', {use k: sorted tags seen}) or
    ('nameerror', (line, col)) for a failing load of x, or ('error', repr)."""
    seen = {}

    def u(k, v):
        w = v.args[0] if isinstance(v, BaseException) else v
        if isinstance(w, Box):
            tag = w.tag
        elif isinstance(w, types.ModuleType):
            tag = modtags.get(w.__name__, -1)
        else:
            tag = w
        seen.setdefault(k, set()).add(tag)
        return v

    armed = []

    class Box:
        def __init__(self, tag):
            self.tag = tag

        def copy(self):
            return self

        def __getitem__(self, i):
            return self

        def __iter__(self):
            k, t = armed.pop()
            seen.setdefault(k, set()).add(self.tag)
            return iter([Box(t)])

    try:
        code = compile(text, '<c03>', 'exec')
    except (SyntaxError, ValueError) as e:
        return 'nocompile', str(e)
    g = {'u': u, 'cm': _CM, 'o': types.SimpleNamespace(x=0), 'd': (lambda **k: None),
         'b': Box, 'arm': (lambda k, t: armed.append((k, t))), 'dz': (lambda t: [Box(t)]),
         '__name__': 'c03prog'}
    try:
        exec(code, g)
    except NameError as e:       # UnboundLocalError is a subclass
        tb = e.__traceback__
        while tb.tb_next is not None:
            tb = tb.tb_next
        if tb.tb_frame.f_code.co_filename != '<c03>':
            return 'error', repr(e)
        pos = list(tb.tb_frame.f_code.co_positions())[tb.tb_lasti // 2]
        return 'nameerror', (pos[0], pos[2])
    except Exception as e:
        return 'error', repr(e)
    return 'ok', {k: sorted(v) for k, v in seen.items()}


def settle(shape, style):
    """Render, run, replace uses that raise NameError by a literal and repeat until the program
    runs to completion.  -> (Render, seen) or (None, reason)."""
    dead = set()
    for _ in range(64):
        r = Render(shape, style, dead)
        st, val = execute(r.text, r.modtags)
        if st == 'ok':
            return r, val
        if st == 'nameerror':
            ks = [k for k, p in r.uses.items() if p == tuple(val)]
            if not ks:
                return None, 'NameError outside a use at %r' % (val,)
            dead.add(ks[0])
            continue
        return None, st + ': ' + str(val)
    return None, 'did not settle'


def analyse(shape, style):
    """Everything the oracle needs, from Python only.

    -> dict(text, uses=[...]) or dict(drop=reason) / dict(harness=msg).
    Each use: k, pos, tags, path, top, static_owner, runtime_owner, accepted(list of pos),
    exact (pos or None)."""
    r, seen = settle(shape, style)
    if r is None:
        if seen.startswith('nocompile'):
            return {'drop': 'nocompile'}
        return {'drop': seen}
    text = r.text
    occ, kinds = occurrences(text)
    # the symtable view: same program with generator expressions instead of inlined
    # comprehensions (3.12's symtable merges inlined comprehensions into their parent)
    base, opts = split_style(style)
    rg = Render(shape, '+'.join(['gen'] + opts), r.dead) if base != 'gen' else r
    tabs = tables(rg.text)
    occ_g, kinds_g = (occurrences(rg.text) if rg is not r else (occ, kinds))
    if [(o['role'], o['path']) for o in occ] != [(o['role'], o['path']) for o in occ_g] \
            or sorted(kinds) != sorted(tabs):
        return {'harness': 'scope trees differ between renderings/symtable: %r vs %r'
                % (sorted(kinds), sorted(tabs))}
    for p, k in kinds.items():
        ty = tabs[p].get_type()
        if {'M': 'module', 'C': 'class'}.get(k, 'function') != ty:
            return {'harness': 'table kind mismatch at %r' % (p,)}
    bypos = {o['pos']: o for o in occ}
    # cross-check the generator's inventory with Python's parser
    inv = {p: 'load' for p in r.uses.values()}
    inv.update({p: 'bind' for p in r.binds.values()})
    inv.update({p: 'decl' for p in r.decls})
    inv.update({p: 'del' for p in r.dels})
    got = {o['pos']: {'store': 'bind', 'param': 'bind'}.get(o['role'], o['role']) for o in occ}
    if inv != got:
        return {'harness': 'occurrence inventory mismatch %r vs %r' % (inv, got)}
    own = {o['pos']: owner(tabs, o['path']) for o in occ}
    tagpos = r.binds
    uses = []
    for k, pos in sorted(r.uses.items()):
        tags = seen.get(k)
        o = bypos[pos]
        if not tags:
            uses.append({'k': k, 'pos': pos, 'executed': False})
            continue
        if any(t not in tagpos for t in tags):
            return {'harness': 'use %d saw unknown tag %r' % (k, tags)}
        st_owner = own[pos]
        rt_owners = sorted({own[tagpos[t]] for t in tags})
        if len(rt_owners) != 1:
            return {'harness': 'use %d took values from several scopes %r' % (k, rt_owners)}
        rt_owner = rt_owners[0]
        fall = False
        if st_owner != rt_owner:
            # a name local to a class body (or module) that is not bound yet falls through to
            # the module globals (LOAD_NAME): the only legal disagreement
            if st_owner is not None and kinds[st_owner] == 'C' and rt_owner == () \
                    and o['path'] == st_owner:
                fall = True
            elif rt_owner is not None and kinds[rt_owner] == 'G' and base != 'gen' \
                    and o['path'][:len(rt_owner)] != rt_owner:
                # CPython 3.12.1 (PEP 709 inlining) leaks the iteration variable of a
                # comprehension into a class body when a closure captures it; 3.11 and
                # generator expressions do not.  Not Python's scoping rules: not judged.
                uses.append({'k': k, 'pos': pos, 'executed': False, 'leak': True})
                continue
            else:
                return {'harness': 'use %d: symtable says %r, run time took it from %r'
                        % (k, st_owner, rt_owner)}
        ok_owners = {rt_owner} | ({st_owner} if fall else set())
        accepted = sorted(q for q, ow in own.items()
                          if ow in ok_owners and bypos[q]['role'] in ('store', 'param', 'decl'))
        exact = None
        if len(tags) == 1 and not fall and o['top'] and o['path'] == rt_owner \
                and kinds[rt_owner] in 'MFC':
            mine = [q for q in accepted]
            if all(bypos[q]['role'] in ('store', 'param') and bypos[q]['path'] == rt_owner
                   and bypos[q]['top'] for q in mine):
                exact = tagpos[tags[0]]
        uses.append({'k': k, 'pos': pos, 'executed': True, 'tags': tags,
                     'path': o['path'], 'static_owner': st_owner,
                     'symclass': symclass(tabs, o['path']) + ('-unbound-falls-through' if fall
                                                              else ''), 'runtime_owner': rt_owner,
                     'fallthrough': fall, 'accepted': accepted, 'exact': exact})
    sites = []
    for o in occ:
        sites.append({'pos': o['pos'], 'role': o['role'], 'path': o['path'],
                      'owner': own[o['pos']]})
    return {'text': text, 'uses': uses, 'sites': sites, 'distractors': r.distractors,
            'kinds': kinds,
            'dead': sorted(r.dead)}
