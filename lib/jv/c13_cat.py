"""C13 catalogue: generated object graphs whose special methods count their own invocations.

A *shape* is a set of (feature, placement) pairs.  Its source text defines
    MetaBase(type) <- Meta  ;  Base(metaclass=Meta) <- C
with every feature's members put on C ('cls'), Base ('base') or Meta ('meta'), plus live objects
built from them.  Three *variants* decide what jedi can find statically:
    file  the source is a real module file            (class and functions findable -> MixedObject)
    exec  the same source exec()-uted from a string    (nothing findable -> pure CompiledValue)
    dyn   real module file, but C is rebuilt with type(...)(name, bases, dict)
          (functions findable, class not)
Every special method calls `_hit('<kind>/<feature>@<placement>')`.
"""
import importlib.util
import itertools
import os
import sys
import types

FEATURES = ['P', 'ND', 'DD', 'SL', 'MP', 'GA', 'GAT', 'GI', 'IT', 'CA', 'LE', 'BO']
PLACEMENTS = ['cls', 'base', 'meta']
VARIANTS = ['file', 'exec', 'dyn']

# counters the property speaks about (everything else is informational)
JUDGED_KINDS = ('property', '__get__', '__getitem__', '__iter__', '__next__', '__call__',
                '__len__', '__bool__')

PRELUDE = '''\
import types as _types
COUNTS = {}
_trace = None
_NX = [0]


def _hit(key):
    COUNTS[key] = COUNTS.get(key, 0) + 1
    if _trace is not None:
        _trace(key)


class Leaf:
    leafattr = 1

    def leafmeth(self):
        return 1


class NDesc:
    def __init__(self, key):
        self.key = key

    def __get__(self, inst, owner=None):
        _hit(self.key)
        return Leaf()


class DDesc:
    def __init__(self, key):
        self.key = key

    def __get__(self, inst, owner=None):
        _hit(self.key)
        return Leaf()

    def __set__(self, inst, value):
        _hit('__set__/' + self.key)


class LazyProp(property):
    pass


class NDescSub(NDesc):
    pass


class DDescSub(DDesc):
    pass


def fn(a, b=1):
    return a


Dyn = type('Dyn', (), {'ca': 7, 'cs': 's'})
'''


def _members(feature, placement, inherit=False):
    """Source lines (class-body level, 4 spaces) for one feature at one placement.
    inherit: the descriptor's type only inherits __get__/__set__ (property subclass, ...)."""
    k = '%s@%s' % (feature, placement)
    if inherit and feature in ('P', 'MP', 'ND', 'DD'):
        plain = _members(feature, placement)
        return [ln.replace('@property', '@LazyProp').replace('NDesc(', 'NDescSub(')
                .replace('DDesc(', 'DDescSub(') for ln in plain]
    meta = placement == 'meta'
    base_t = 'type' if meta else 'object'
    if feature == 'P':
        return ['    @property', '    def prop(self):', "        _hit('property/%s')" % k,
                '        return Leaf()']
    if feature == 'MP':     # always lives on a metaclass (placement decides which one)
        return ['    @property', '    def mp(cls):', "        _hit('property/%s')" % k,
                '        return Leaf()']
    if feature == 'ND':
        return ["    nd = NDesc('__get__/%s')" % k]
    if feature == 'DD':
        return ["    dd = DDesc('__get__/%s')" % k]
    if feature == 'SL':
        return ['    __slots__ = ()' if meta else "    __slots__ = ('sl', 'ia')"
                if placement == 'cls' else "    __slots__ = ('sl',)"]
    if feature == 'GA':
        return ['    def __getattr__(self, name):', "        _hit('__getattr__/%s')" % k,
                "        if name == 'dyn':", '            return Leaf()',
                '        raise AttributeError(name)',
                '    def __dir__(self):', "        _hit('__dir__/%s')" % k,
                "        return list(%s.__dir__(self)) + ['dyn']" % base_t]
    if feature == 'GAT':
        return ['    def __getattribute__(self, name):', "        _hit('__getattribute__/%s')" % k,
                '        return %s.__getattribute__(self, name)' % base_t]
    if feature == 'GI':
        return ['    def __getitem__(self, index):', "        _hit('__getitem__/%s')" % k,
                '        if isinstance(index, int) and index > 1:', '            raise IndexError(index)',
                '        return Leaf()']
    if feature == 'IT':
        return ['    def __iter__(self):', "        _hit('__iter__/%s')" % k, '        return self',
                '    def __next__(self):', "        _hit('__next__/%s')" % k,
                '        _NX[0] += 1', '        if _NX[0] % 3 == 0:', '            raise StopIteration',
                '        return Leaf()']
    if feature == 'CA':
        if meta:
            return ['    def __call__(self, *args, **kwargs):', "        _hit('__call__/%s')" % k,
                    '        return type.__call__(self, *args, **kwargs)']
        return ['    def __call__(self, *args, **kwargs):', "        _hit('__call__/%s')" % k,
                '        return Leaf()']
    if feature == 'LE':
        return ['    def __len__(self):', "        _hit('__len__/%s')" % k, '        return 2']
    if feature == 'BO':
        return ['    def __bool__(self):', "        _hit('__bool__/%s')" % k, '        return True']
    raise ValueError(feature)


def shape_id(shape, shadow=False, inherit=False):
    return '+'.join('%s@%s' % fp for fp in shape) + ('|sh' if shadow else '') \
        + ('|inh' if inherit else '')


def parse_shape_id(sid):
    """-> (shape, shadow) or, for ids carrying the inherited-descriptor flag, (shape, flags)
    where flags is the tuple (shadow, inherit); shape_source accepts both."""
    inherit = sid.endswith('|inh')
    if inherit:
        sid = sid[:-4]
    shadow = sid.endswith('|sh')
    if shadow:
        sid = sid[:-3]
    shape = tuple(tuple(x.split('@')) for x in sid.split('+'))
    return shape, ((shadow, True) if inherit else shadow)


def shape_source(shape, variant, shadow=False, inherit=False):
    """-> python source of the module for this shape."""
    if isinstance(shadow, tuple):
        shadow, inherit = shadow
    where = {'cls': [], 'base': [], 'meta': [], 'metabase': []}
    feats = dict(shape)
    for f, p in shape:
        if f == 'MP':
            # metaclass property: 'cls' -> on Meta, 'base' -> inherited from MetaBase,
            # 'meta' -> on Meta as well (kept for regularity of the enumeration)
            where['metabase' if p == 'base' else 'meta'] += _members(f, p, inherit)
        else:
            where[p] += _members(f, p, inherit)
    slots_cls = feats.get('SL') == 'cls'
    if slots_cls:
        where['base'].insert(0, '    __slots__ = ()')
    cname = '_C0' if variant == 'dyn' else 'C'
    out = [PRELUDE, '', 'class MetaBase(type):']
    out += where['metabase'] or ['    pass']
    out += ['', '', 'class Meta(MetaBase):']
    out += where['meta'] or ['    pass']
    out += ['', '', 'class Base(metaclass=Meta):']
    out += where['base'] + ['    baseattr = 2.5']
    out += ['', '', 'class %s(Base):' % cname]
    out += where['cls']
    out += ['    plain = 1', "    pcont = {'k': [Leaf(), 's']}"]
    if not slots_cls:
        out += ['    mut = 1']
    out += ['', '    def meth(self):', '        return Leaf()', '',
            '    def __init__(self):', '        self.ia = Leaf()']
    if 'SL' in feats and feats['SL'] != 'meta':
        out += ['        self.sl = Leaf()']
    if not slots_cls:
        out += ["        self.icont = [Leaf(), {'k': 1.5}]"]
        if shadow:
            # instance __dict__ entries with the names of the class-level descriptors
            out += ["        d = object.__getattribute__(self, '__dict__')"]
            out += ["        d['prop'] = 1", "        d['nd'] = 1", "        d['dd'] = 1"]
    out += ['']
    if variant == 'dyn':
        out += ['',
                "C = type(_C0)('C', _C0.__bases__, {k: v for k, v in vars(_C0).items()",
                "                                   if k not in ('__dict__', '__weakref__')",
                '                                   and not isinstance(v, _types.MemberDescriptorType)})',
                "C.__qualname__ = 'C'"]
    out += ['', 'obj = C()']
    if not slots_cls:
        # the live object differs from what the source says (class body: mut = 1)
        out += ["object.__getattribute__(obj, '__dict__')['mut'] = 'live'"]
    out += ['box = [obj, C]', "hold = _types.SimpleNamespace(o=obj, c=C)", 'unk = None', '']
    return '\n'.join(out)


CONTAINER_SOURCE = PRELUDE + '''

class K:
    katt = 1.5

    def __init__(self):
        self.kia = 'x'


def _values():
    di = Dyn()
    di.ia = [1, 'x']
    return [('int', 1), ('str', 'x'), ('float', 1.5), ('none', None), ('bool', True),
            ('bytes', b'x'), ('fn', fn), ('cls', K), ('dyncls', Dyn), ('dyninst', di),
            ('kinst', K()), ('cplx', 1j)]


d1 = {'k' + n: v for n, v in _values()}
d1[3] = 'intkey'
l1 = [v for n, v in _values()]
t1 = tuple(v for n, v in _values())
d2 = {'d': d1, 'l': l1, 't': t1, 'e': {}, 'dd': {'x': {'y': 1}}}
l2 = [d1, l1, t1, [], [[1.5]]]
t2 = (d1, l1, t1, (), ((b'x',),))
inst = K()
inst.a = d2
inst.b = l2
inst.c = t2
inst.f = fn
inst.k = K
dynst = Dyn()
dynst.a = d2
dynst.b = (K(), Dyn())
sn = _types.SimpleNamespace(a=d1, b=_types.SimpleNamespace(x=l1, y='s'), c=K())
'''


def all_shapes(mixed_placements=False):
    """-> (singles, pairs): lists of shapes, simplest first."""
    singles = []
    for f in FEATURES:
        for p in PLACEMENTS:
            if f == 'MP' and p == 'meta':
                continue        # same graph as MP@cls
            singles.append(((f, p),))
    pairs = []
    for f, g in itertools.combinations(FEATURES, 2):
        for p in PLACEMENTS:
            for q in PLACEMENTS:
                if (p != q) and not mixed_placements:
                    continue
                if (f == 'MP' and p == 'meta') or (g == 'MP' and q == 'meta'):
                    continue
                pairs.append(((f, p), (g, q)))
    return singles, pairs


class Graph:
    """A built (live) graph: module object, namespace, counters."""
    def __init__(self, module):
        self.module = module
        self.counts = module.COUNTS

    def namespace(self):
        return {k: v for k, v in vars(self.module).items()
                if not k.startswith('_') and k not in ('COUNTS',)}

    def reset(self):
        self.counts.clear()
        self.module._NX[0] = 0

    def set_trace(self, cb):
        self.module._trace = cb


_seq = [0]


def build(source, variant, directory):
    """Materialise `source`; returns Graph.  'exec' leaves no file behind."""
    _seq[0] += 1
    name = 'c13g_%d_%d' % (os.getpid(), _seq[0])
    if variant == 'exec':
        mod = types.ModuleType(name)
        # not registered in sys.modules, no __file__: inspect cannot find any source
        exec(compile(source, '<c13-%s>' % name, 'exec'), mod.__dict__)
        return Graph(mod)
    os.makedirs(directory, exist_ok=True)
    path = os.path.join(directory, name + '.py')
    with open(path, 'w') as f:
        f.write(source)
    spec = importlib.util.spec_from_file_location(name, path)
    mod = importlib.util.module_from_spec(spec)
    sys.modules[name] = mod
    spec.loader.exec_module(mod)
    return Graph(mod)
