"""Text layouts (DESIGN C07/C17): the same program with different line terminators, indentation
characters, continuation lines, unicode identifiers and final-newline state.

A layout is (content transform) ∘ (newline transform).  Content transforms keep the program's
meaning; newline transforms keep every (line, column)."""
import re

from . import pf


def tabs(text):
    """Indent with tabs instead of 4 spaces."""
    out = []
    for line in text.split('\n'):
        m = re.match(r'^((?:    )+)', line)
        if m:
            line = '\t' * (len(m.group(1)) // 4) + line[len(m.group(1)):]
        out.append(line)
    return '\n'.join(out)


def formfeed(text):
    """A form feed line before every top-level def/class (legal, used by emacs users)."""
    return re.sub(r'(?m)^(def |class )', '\x0c\n\\1', text)


def continuation(text):
    """Break `name = expr` statements after the `=` with a backslash continuation."""
    out = []
    for line in text.split('\n'):
        m = re.match(r'^(\s*)([A-Za-z_]\w*) = (.+)$', line)
        if m and not m.group(3).rstrip().endswith(':'):
            out.append('%s%s = \\' % (m.group(1), m.group(2)))
            out.append('%s        %s' % (m.group(1), m.group(3)))
        else:
            out.append(line)
    return '\n'.join(out)


CONTENT = {
    'plain': lambda t: t,
    'tabs': tabs,
    'formfeed': formfeed,
    'continuation': continuation,
    'unicode': pf.unicode_names,
    'compat': pf.compat_names,
}


def newline(text, style):
    if style == 'crlf':
        return text.replace('\n', '\r\n')
    if style == 'cr':
        return text.replace('\n', '\r')
    return text


def variants(text, tier='quick'):
    """-> [(layout id, LF text (for independent tokenising), final text)]"""
    combos = [('plain', 'lf', True), ('plain', 'crlf', True), ('plain', 'cr', True),
              ('tabs', 'lf', True), ('formfeed', 'lf', True), ('continuation', 'lf', True),
              ('unicode', 'lf', True), ('compat', 'lf', True), ('plain', 'lf', False)]
    if tier != 'quick':
        combos += [('tabs', 'crlf', True), ('continuation', 'crlf', False), ('unicode', 'cr', True),
                   ('formfeed', 'crlf', True), ('plain', 'crlf', False)]
    out = []
    for content, nl, final in combos:
        lf = CONTENT[content](text)
        if not lf.endswith('\n'):
            lf += '\n'
        t = lf if final else lf.rstrip('\n')
        out.append(('%s+%s%s' % (content, nl, '' if final else '+nofinal'), t, newline(t, nl)))
    return out
